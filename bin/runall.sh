#!/bin/bash
# run every registered check once (tier = $1, default quick; PROPS="C01 C05" restricts the list); prints one line per property
tier=${1:-quick}
cd "$(dirname "$0")/.."
rc=0
for p in ${PROPS:-C01 C02 C03 C04 C05 C06 C07 C08 C09 C10 C11 C12 C13 C14 C15 C16 C17 C18 C19 C20}; do
  out=$(bin/check $p $tier 2>/dev/null); e=$?
  echo "$p exit=$e $(echo "$out" | tail -1 | cut -c1-160)"
  [ $e -ne 0 ] && { rc=1; echo "$out" | grep "VIOLATION\|signature\|HARNESS" | head -5; }
done
exit $rc
