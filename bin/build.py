#!/usr/bin/env python3
"""Build the simcdns worker for one flavour from /repo's current working tree + /verif/sim.
Objects are cached under /verif/build keyed by content hashes, so an edited /repo is always rebuilt
and an unedited one never. Prints the path of the executable."""
import hashlib, os, subprocess, sys, glob, concurrent.futures, shutil

VERIF = os.path.dirname(os.path.dirname(os.path.abspath(__file__)))
REPO = os.environ.get("CDNS_REPO", "/repo")
BUILD = os.environ.get("VERIF_BUILD_DIR", os.path.join(VERIF, "build"))

FLAVOURS = {
    "asan": dict(cxx="g++", flags=["-O1", "-g", "-fsanitize=address,undefined", "-fno-sanitize=alignment",
                                   "-fno-sanitize-recover=undefined", "-fno-omit-frame-pointer"],
                 link=["-fsanitize=address,undefined"]),
    "plain": dict(cxx="g++", flags=["-O2", "-g1"], link=[]),
    "tsan": dict(cxx="clang++", flags=["-O1", "-g", "-fsanitize=thread", "-fno-omit-frame-pointer", "-DSIM_NO_ALLOC_SEAM", "-DSIM_TSAN"],
                 link=["-fsanitize=thread"]),
    # diagnostic only (bin/coverage.sh): which library functions do the checks reach at all
    "cov": dict(cxx="clang++", flags=["-O0", "-g", "-DSIM_NO_ALLOC_SEAM"], link=["-fprofile-instr-generate"]),
}
COMMON = ["-msse4", "-Wall", "-Wno-unused-function", "-Wno-sign-compare", "-Wno-unused-variable", "-pthread"]

def sha(*parts):
    h = hashlib.sha256()
    for p in parts:
        h.update(p if isinstance(p, bytes) else p.encode())
        h.update(b"\0")
    return h.hexdigest()

def read(p):
    with open(p, "rb") as f:
        return f.read()

def build(flavour, verbose=False):
    fl = FLAVOURS[flavour]
    lib_src = sorted(glob.glob(os.path.join(REPO, "src", "*.cpp")))
    tool_src = sorted(glob.glob(os.path.join(REPO, "src", "bin", "*.cpp")))
    lib_hdr = sorted(glob.glob(os.path.join(REPO, "src", "*.h")))
    sim_src = sorted(glob.glob(os.path.join(VERIF, "sim", "*.cpp")))
    sim_hdr = sorted(glob.glob(os.path.join(VERIF, "sim", "*.h")))
    libhash = sha(*[read(p) for p in lib_hdr])
    simhash = sha(*[read(p) for p in sim_hdr])
    objdir = os.path.join(BUILD, "obj", flavour)
    os.makedirs(objdir, exist_ok=True)
    jobs = []   # (src, obj, cmd)
    used = set()
    def add(src, std, extra, deps):
        flags = fl["flags"] + COMMON + [std] + extra
        if flavour == "tsan" and os.path.basename(src) in ("simfs.cpp", "simsched.cpp", "alloc.cpp"):
            # harness state shared between simulated threads lives in uninstrumented translation units (DESIGN 2.1-6)
            flags = [f for f in flags if f != "-fsanitize=thread"]
        if flavour == "cov":   # (harness units too: the header-only parts of the library are instantiated there)
            flags = flags + ["-fprofile-instr-generate", "-fcoverage-mapping"]
        if flavour == "tsan" and src.startswith(os.path.join(REPO, "src")) and "/bin/" not in src:
            # pre-emption points: one callback per basic block of library code (sched.cpp)
            flags = flags + ["-fsanitize-coverage=trace-pc-guard"]
        key = sha(read(src), deps, " ".join(flags), fl["cxx"])[:20]
        name = os.path.basename(src).replace(".cpp", "")
        if "/bin/" in src:
            name = "tool_" + name
        obj = os.path.join(objdir, f"{name}-{key}.o")
        used.add(obj)
        if not os.path.exists(obj):
            jobs.append((src, obj, [fl["cxx"]] + flags + ["-c", src, "-o", obj + ".tmp"]))
        return obj
    objs = []
    for s in lib_src:
        objs.append(add(s, "-std=c++14", ["-I" + os.path.join(REPO, "src")], libhash))
    for s in tool_src:
        tool = os.path.basename(s).replace(".cpp", "")
        objs.append(add(s, "-std=c++14", ["-I" + os.path.join(REPO, "src"), f"-Dmain={tool}_main"], libhash))
    for s in sim_src:
        objs.append(add(s, "-std=c++17", ["-I" + os.path.join(REPO, "src"), "-I" + os.path.join(VERIF, "sim")], libhash + simhash))
    def run(job):
        src, obj, cmd = job
        r = subprocess.run(cmd, capture_output=True, text=True)
        if r.returncode != 0:
            return (src, r.stderr)
        os.replace(obj + ".tmp", obj)
        if verbose and r.stderr.strip():
            sys.stderr.write(r.stderr)
        return None
    if jobs:
        sys.stderr.write(f"[build {flavour}] compiling {len(jobs)} translation units\n")
        with concurrent.futures.ThreadPoolExecutor(max_workers=int(os.environ.get("VERIF_JOBS", "16"))) as ex:
            errs = [e for e in ex.map(run, jobs) if e]
        if errs:
            for src, err in errs:
                sys.stderr.write(f"--- {src}\n{err}\n")
            raise SystemExit(f"BUILD-FAILED flavour={flavour}: {len(errs)} translation unit(s) do not compile")
    exe_key = sha(*sorted(objs), " ".join(fl["link"]))[:20]
    exedir = os.path.join(BUILD, flavour)
    os.makedirs(exedir, exist_ok=True)
    exe = os.path.join(exedir, f"simcdns-{exe_key}")
    if not os.path.exists(exe):
        cmd = [fl["cxx"]] + objs + fl["link"] + ["-rdynamic", "-pthread", "-lz", "-llzma", "-ldl", "-o", exe + ".tmp"]
        r = subprocess.run(cmd, capture_output=True, text=True)
        if r.returncode != 0:
            sys.stderr.write(r.stderr)
            raise SystemExit(f"BUILD-FAILED flavour={flavour}: link")
        os.replace(exe + ".tmp", exe)
    # drop stale cache entries of this flavour (older than an hour: a check still running may be using a previous executable)
    import time
    old = time.time() - 3600
    for f in glob.glob(os.path.join(objdir, "*.o")):
        if f not in used:
            try:
                if os.path.getmtime(f) < old: os.remove(f)
            except OSError: pass
    for f in glob.glob(os.path.join(exedir, "simcdns-*")):
        if f != exe:
            try:
                if os.path.getmtime(f) < old: os.remove(f)
            except OSError: pass
    os.utime(exe, None)
    return exe

if __name__ == "__main__":
    fl = sys.argv[1] if len(sys.argv) > 1 else "asan"
    print(build(fl, verbose="-v" in sys.argv))
