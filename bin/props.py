# Per-property check configuration: which engines run, in which build flavour, how many seeded runs
# per tier, and the texts that go into MANIFEST.json / the evidence files.
# A "stage" = one engine run as a batch of seeded simulations. counts = (quick, thorough).

REAL = ["all of /repo/src/*.cpp and headers (compiled from the working tree)", "libstdc++ iostreams/filebuf", "zlib", "liblzma"]
STUB_FS = "kernel file layer (fopen/fopen64/fclose/read/write/writev/close/fstat/rename -> in-memory SimFS, link-time interposition)"

PROPS = {
    "C01": dict(
        title="export -> file -> read returns the records buffered",
        level="exploration", design_ref="DESIGN.md §4 C01",
        stages=[dict(engine="pipeline", flavour="asan", quick=2400, thorough=150000)],
        technique="deterministic simulation: seeded API histories on a real exporter over a simulated file system, outputs checked against an executable exporter model by the library reader and by an independent RFC 8618 reader",
        rule="one run = one seeded plan (swarm configuration + <=60 API calls) executed on the real CdnsExporter over SimFS; distinct = distinct event-log hash; non-trivial = at least one block reached a closed output and was compared with the model",
        assumptions=["RefCBOR/RefCDNS (harness) implement RFC 8949/8618 correctly (self-checked against RFC vectors)",
                     "timestamps normalised and below 2^63 ticks (precondition of the property)",
                     "response-side question list is left unconstrained when hint bit 11 is clear (RFC 8618 assigns it no bit)"],
        note="Grade P: the content-equality clause has no fault or schedule in it; the simulator contributes the file layer (all compression modes, both output kinds), histories and replay. Sampling, not proof.",
        stub=[STUB_FS]),
    "C02": dict(
        title="every finished output is one well-formed, schema-valid document",
        level="exploration", design_ref="DESIGN.md §4 C02",
        stages=[dict(engine="pipeline", flavour="asan", quick=2400, thorough=150000)],
        technique="deterministic simulation: watcher validates every output at the moment it is closed (RefCBOR strict well-formedness + RFC 8618 schema) over seeded API histories incl. present-but-empty structures and directly built blocks",
        rule="as C01; plans are biased to present-but-empty optional structures, directly built blocks and rotations; non-trivial = a closed output with at least one block was validated",
        assumptions=["RefCBOR/RefCDNS correctness", "directly built blocks only store indices returned by their own add_* calls (documented caller duty)"],
        note="Grade P. Sampling of histories, not proof.",
        stub=[STUB_FS]),
    "C04": dict(
        title="storage hints are honoured",
        level="exploration", design_ref="DESIGN.md §4 C04",
        stages=[dict(engine="pipeline", flavour="asan", quick=2400, thorough=150000)],
        technique="deterministic simulation (degenerate: no fault/schedule): swarm-randomised hint masks incl. every single bit cleared/alone, RefCDNS checks members, table reachability and preamble masks of every block",
        rule="as C01 with hint masks from {all, one bit cleared, one bit set, none, random} per parameter set and records with every optional member set",
        assumptions=["RefCDNS correctness", "response-side question list unconstrained (no hint bit in RFC 8618)"],
        note="Grade D: the property has no fault and no schedule; simulation adds determinism, replay and the shared oracle only.",
        stub=[STUB_FS]),
    "C09": dict(
        title="preamble and block parameters survive write -> read",
        level="exploration", design_ref="DESIGN.md §4 C09",
        stages=[dict(engine="pipeline", flavour="asan", quick=2400, thorough=100000)],
        technique="deterministic simulation (degenerate): swarm-generated FilePreamble values written by a real exporter to SimFS, read back by CdnsReader and by RefCDNS, member-for-member comparison",
        rule="as C01 with rich preambles (every optional-member subset, versions 0..255, private version present/absent, collection parameters absent/empty/partial/full, 1..7 sets)",
        assumptions=["RefCDNS correctness", "an empty list inside collection parameters is treated as absent (the writer cannot express it)"],
        note="Grade D.",
        stub=[STUB_FS]),
    "C10": dict(
        title="reported byte counts equal bytes produced",
        level="exploration", design_ref="DESIGN.md §4 C10",
        stages=[dict(engine="pipeline", flavour="asan", quick=2400, thorough=150000)],
        technique="deterministic simulation: returned counts summed over API histories vs. bytes found in the simulated file (per output, across rotations, all compression modes, names and descriptors)",
        rule="as C01; checked per closed output: sum of returned counts = uncompressed size (minus the destructor's closing byte)",
        assumptions=["decompression oracle (zlib/liblzma decoders called directly) is correct"],
        note="Grade P.",
        stub=[STUB_FS]),
    "C11": dict(
        title="block tables de-duplicate, keep indices stable, stay referentially closed",
        level="exploration", design_ref="DESIGN.md §4 C11",
        stages=[dict(engine="pipeline", flavour="asan", quick=2400, thorough=150000)],
        technique="deterministic simulation: RefCDNS checks every block of every simulated output for duplicate table entries, index range and unreachable (leaked) entries; tiny value pools force repeats",
        rule="as C01 with value pools of 1..3 entries so repeats dominate",
        assumptions=["RefCDNS correctness"],
        note="Grade P.",
        stub=[STUB_FS]),
    "C12": dict(
        title="buffering conserves records and flushes exactly at the configured size",
        level="exploration", design_ref="DESIGN.md §4 C12",
        stages=[dict(engine="pipeline", flavour="asan", quick=2400, thorough=150000)],
        technique="deterministic simulation: refinement of the real exporter against the executable exporter model, call by call (flush iff full, return value, counters) and through the files",
        rule="as C01 with max_block_items in {0,1,2,3}, hint masks that make records unstorable, AEC key repetition, parameter switches",
        assumptions=["exporter model = DESIGN.md Appendix A"],
        note="Grade P/S.",
        stub=[STUB_FS]),
    "C13": dict(
        title="rotation yields self-contained files, loses/repeats/reorders nothing",
        level="exploration", design_ref="DESIGN.md §4 C13",
        stages=[dict(engine="pipeline", flavour="asan", quick=2400, thorough=150000)],
        technique="deterministic simulation: rotation-heavy API histories on SimFS; watcher validates each closed output at once, forbids later writes to it; model equality of records per output in rotation order",
        rule="as C01 with rotation-dominated plans (names and descriptors, export true/false, consecutive rotations, late parameter sets)",
        assumptions=["rotation stays within the exporter's output kind (cross-kind rotation is undefined by the property)"],
        note="Grade S.",
        stub=[STUB_FS]),
    "C15": dict(
        title="a named output appears under its final name only when complete",
        level="fault_enumeration", design_ref="DESIGN.md §4 C15",
        stages=[dict(engine="pipeline", flavour="asan", quick=3200, thorough=200000)],
        technique="deterministic simulation, crash-point enumeration: the invariant 'every file under a final name is an intact older file or a complete output' is evaluated after every output-related simulated system call (= process killed right after it) of seeded rotation scenarios on SimFS",
        rule="one run = one seeded scenario (plain/gzip/xz; rotations onto fresh names, onto names holding an older file, onto the name currently open; destruction with/without buffered data); every write/writev/rename/close/open of the scenario is a crash point at which the invariant is evaluated (coverage.counters.crash_points_checked); non-trivial = a block reached a closed output",
        assumptions=["crash = process death: bytes already passed to write()/rename() survive, user-space buffers vanish (no power-loss model; the library never fsyncs)",
                     "SimFS models rename() as atomic replacement"],
        note="Grade S. Exhaustive over the crash points of each scenario; scenarios are sampled.",
        exhaustive_note="every output-related system call of each explored scenario is a checked crash point; the scenario space itself is sampled",
        stub=[STUB_FS]),
    "C16": dict(
        title="output failures are reported, never swallowed; rotation recovers",
        level="fault_enumeration", design_ref="DESIGN.md §4 C16",
        stages=[dict(engine="fault", flavour="asan", quick=64 * 60, thorough=256 * 1500, args=["--slots", "64"], args_thorough=["--slots", "256"])],
        technique="deterministic simulation with write-fault injection: for each seeded scenario a fault-free pass enumerates every write call; the faulted pass makes the j-th write of op i fail (ENOSPC/EIO/short/EINTR, once or persistently) and checks the report-and-recover protocol against SimFS contents and the exporter model",
        rule="one run = (scenario seed, fault slot): scenarios with <= slots faults are enumerated exhaustively, longer ones sampled evenly; distinct = distinct event-log hash; non-trivial = the fault fired on an output that was then closed, or an exception was delivered",
        assumptions=["a short write still accepts >= 1 byte; EINTR is not persistent (either would hang any retry loop, incl. libstdc++'s)",
                     "loss is decided from SimFS: the closed output differs from the bytes of the fault-free pass",
                     "recovery bound: rotate_output to a healthy destination must return normally within two attempts after the first exception",
                     "destruction is outside the guarantee"],
        note="Grade S.",
        exhaustive_note="per scenario all (op, write call, kind, persistence) combinations when they fit the slot budget (coverage.counters.scenarios_enumerated_exhaustively), else an even sample",
        stub=[STUB_FS]),
    "C17": dict(
        title="timestamp offsets exact, invertible, never negative within a block",
        level="exploration", design_ref="DESIGN.md §4 C17",
        stages=[dict(engine="pipeline", flavour="asan", quick=2400, thorough=150000)],
        technique="deterministic simulation: seeded arrival orders of timed/untimed records; RefCDNS recomputes every record time in 128-bit arithmetic from earliest-time + offset and compares with the submitted time",
        rule="as C01 with shuffled timed/untimed Q/R and malformed-message records, tick rates 1..10^9 and boundary instants",
        assumptions=["timestamps normalised and below 2^63 ticks"],
        note="Grade P.",
        stub=[STUB_FS]),
}

ORDER = ["C01", "C02", "C03", "C04", "C05", "C06", "C07", "C08", "C09", "C10", "C11", "C12", "C13", "C14", "C15", "C16", "C17", "C18", "C19", "C20"]

# Properties not claimed yet (kept current while the engines are being built; see MANIFEST.not_applicable)
NOT_CLAIMED = {p: "check under construction in this round (engine not finished); not a claim that the technique cannot apply"
               for p in ORDER if p not in PROPS}
