#!/usr/bin/env python3
"""Evaluate one seeded defect: bin/mutant_eval.py <dir with patch.diff> <property> [more properties...] [--tier quick|thorough]
Applies the patch in a scratch worktree of /repo (never in /repo itself), runs the named checks against it with their
own build and output directories, prints which of them report a violation, and removes everything again."""
import json, os, shutil, subprocess, sys, time
HERE = os.path.dirname(os.path.abspath(__file__))
VERIF = os.path.dirname(HERE)
def main():
    args = [a for a in sys.argv[1:] if not a.startswith("--")]
    tier = sys.argv[sys.argv.index("--tier") + 1] if "--tier" in sys.argv else "quick"
    if "--tier" in sys.argv: args.remove(tier)
    d, props = os.path.abspath(args[0]), args[1:]
    tag = os.path.basename(d.rstrip("/")) + "_" + str(os.getpid())
    wt, bld, out = f"/tmp/eval_{tag}", f"/tmp/evalbuild_{tag}", f"/tmp/evalout_{tag}"
    subprocess.run(["git", "-C", "/repo", "worktree", "add", "-q", "--detach", wt, "HEAD"], check=True)
    res = {}
    try:
        r = subprocess.run(["git", "-C", wt, "apply", os.path.join(d, "patch.diff")], capture_output=True, text=True)
        if r.returncode != 0:
            print("PATCH-DOES-NOT-APPLY", r.stderr[:500]); return 2
        env = dict(os.environ, CDNS_REPO=wt, VERIF_BUILD_DIR=bld, VERIF_OUT_DIR=out)
        for p in props:
            t0 = time.time()
            r = subprocess.run([os.path.join(HERE, "check"), p, tier], capture_output=True, text=True, env=env)
            sigs = [l.strip() for l in r.stdout.splitlines() if l.startswith("  signature:")]
            res[p] = dict(exit=r.returncode, signatures=sigs[:6], wall=round(time.time() - t0, 1))
            print(f"{p} {tier}: exit {r.returncode} {'CAUGHT' if r.returncode == 1 else ('HARNESS-PROBLEM' if r.returncode == 2 else 'missed')} {sigs[:3]}", flush=True)
            if r.returncode == 2 or (r.returncode == 1 and not sigs): print("STDOUT-TAIL:", r.stdout[-1500:], "STDERR-TAIL:", r.stderr[-1500:])
    finally:
        subprocess.run(["git", "-C", "/repo", "worktree", "remove", "--force", wt])
        shutil.rmtree(bld, ignore_errors=True); shutil.rmtree(out, ignore_errors=True)
    print("RESULT " + json.dumps(res))
    return 0
if __name__ == "__main__":
    sys.exit(main())
