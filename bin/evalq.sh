#!/bin/bash
# usage: evalq.sh logfile item...   where item = seeded-id:prop[,prop...]
log=$1; shift
for it in "$@"; do id=${it%%:*}; props=${it#*:}; echo "== $id" >> $log; /verif/bin/mutant_confirm.sh /verif/seeded/$id 2>&1 | tail -2 >> $log; /verif/bin/mutant_eval.py /verif/seeded/$id ${props//,/ } >> $log 2>&1; done
echo ALLDONE >> $log
