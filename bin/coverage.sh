#!/bin/bash
# Diagnostic (not a registered check): which functions of /repo/src do the quick checks execute at all?
# Builds the harness with clang source-based coverage for the library sources, runs every property's quick check with it
# (verdicts are ignored here), and lists library functions that were never entered. Output: $OUT/functions_never_entered.txt
set -u
cd "$(dirname "$0")/.."
OUT=${1:-/tmp/verif_cov}
rm -rf "$OUT"; mkdir -p "$OUT/raw"
export VERIF_FLAVOUR=cov VERIF_OUT_DIR="$OUT/out" LLVM_PROFILE_FILE="$OUT/raw/%8m.profraw"
for p in ${PROPS:-C01 C02 C03 C04 C05 C06 C07 C08 C09 C10 C11 C12 C13 C14 C15 C16 C17 C18 C19 C20}; do
  [ "$p" = C20 ] && continue   # the thread scheduler needs the tsan flavour's pre-emption callbacks
  bin/check $p quick > "$OUT/$p.log" 2>&1; echo "$p exit=$? $(tail -1 "$OUT/$p.log" | cut -c1-100)"
done
EXE=$(python3 bin/build.py cov)
llvm-profdata-14 merge -sparse "$OUT"/raw/*.profraw -o "$OUT/merged.profdata"
llvm-cov-14 report "$EXE" -instr-profile="$OUT/merged.profdata" -show-functions $(ls ${CDNS_REPO:-/repo}/src/*.cpp ${CDNS_REPO:-/repo}/src/*.h) 2>/dev/null > "$OUT/functions.txt"
llvm-cov-14 report "$EXE" -instr-profile="$OUT/merged.profdata" ${CDNS_REPO:-/repo}/src 2>/dev/null > "$OUT/files.txt"
awk '$NF ~ /%$/ && ($(NF-3) == "0.00%" || $4 == "0.00%") {print}' "$OUT/functions.txt" | c++filt > "$OUT/functions_never_entered.txt"
tail -30 "$OUT/files.txt"
echo "functions never entered: $(wc -l < "$OUT/functions_never_entered.txt") (see $OUT/functions_never_entered.txt)"
