#!/usr/bin/env python3
"""Regenerate /verif/MANIFEST.json from bin/props.py (single source of truth for the checks)."""
import json, os, sys
HERE = os.path.dirname(os.path.abspath(__file__))
VERIF = os.path.dirname(HERE)
sys.path.insert(0, HERE)
from props import PROPS, ORDER

def engine_path(name):
    """the source file that defines sim::engine_<name> (several read-side engines share eng_reader.cpp)"""
    import glob, os
    here = os.path.dirname(os.path.dirname(os.path.abspath(__file__)))
    for f in sorted(glob.glob(os.path.join(here, "sim", "eng_*.cpp"))):
        if ("void sim::engine_%s(" % name) in open(f).read():
            return "sim/" + os.path.basename(f)
    return "sim/eng_%s.cpp" % name

NOT_YET = {}   # property -> reason, for properties not (yet) claimed
try:
    from props import NOT_CLAIMED
    NOT_YET = NOT_CLAIMED
except ImportError:
    pass

engines = {}
checks = []
for pid in ORDER:
    if pid not in PROPS:
        continue
    c = PROPS[pid]
    for st in c["stages"]:
        engines.setdefault(st["engine"], set()).add(pid)
    checks.append(dict(
        property_id=pid,
        quick_cmd=f"bin/check {pid} quick",
        thorough_cmd=f"bin/check {pid} thorough",
        evidence_file=f"evidence/{pid}.json",
        replay_cmd_template=f"bin/check {pid} --replay {{path}}",
        engine="+".join(st["engine"] for st in c["stages"]),
        level_claimed=dict(category=c["level"], text=c.get("level_text", c["note"]), design_ref=c["design_ref"]),
        level_note=c["note"] + " Trusted base: " + "; ".join(c["assumptions"]),
        technique=c["technique"]))

ENGINE_TEXT = {
    "pipeline": "seeded API histories on the real CdnsExporter over SimFS; watcher + RefCDNS + CdnsReader consumer; exporter reference model",
}
try:
    from props import ENGINE_TEXT as ET
    ENGINE_TEXT.update(ET)
except ImportError:
    pass

man = dict(
    version=1,
    setup_cmd="bin/check setup",
    hooks=dict(guard="CDNS_VERIF", enable="no hook exists: every seam is a link-time definition in the harness executable, a template specialisation the library invites, or the library's own std::istream& parameter; checks compile /repo/src from the working tree without any define",
               baseline_off_cmd="cmake -S /repo -B /repo/_build -G Ninja -DBUILD_TESTS=ON >/dev/null && cmake --build /repo/_build && ctest --test-dir /repo/_build -j8 --timeout 900",
               source_commits=[], add_only=True),
    engines=[dict(name=n, path=engine_path(n), serves_properties=sorted(p), kind_free_text=ENGINE_TEXT.get(n, "")) for n, p in sorted(engines.items())],
    checks=checks,
    notes="Deterministic simulation with fault injection for CZ-NIC/c-dns; see DESIGN.md. One seed (VERIF_SEED) decides every plan; violations are minimised (ddmin over the plan's ops), gated (same plan twice in-process, fresh-process replay) and written to replays/<id>/.",
    not_applicable=[dict(property_id=p, reason=r) for p, r in sorted(NOT_YET.items())])
with open(os.path.join(VERIF, "MANIFEST.json"), "w") as f:
    json.dump(man, f, indent=1)
print("MANIFEST.json written:", len(checks), "checks;", len(NOT_YET), "not claimed")
