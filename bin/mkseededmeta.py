#!/usr/bin/env python3
"""Collect confirmation + evaluation results of the seeded defects (logs written by bin/mutant_confirm.sh and
bin/mutant_eval.py) into seeded/<id>/meta.json and print the table for DESIGN.md Appendix E."""
import glob, json, os, re, sys
VERIF = os.path.dirname(os.path.dirname(os.path.abspath(__file__)))
logs = sorted(glob.glob(sys.argv[1] if len(sys.argv) > 1 else "/tmp/eval*.log")) + glob.glob(os.path.join(VERIF, "seeded", "logs", "confirm*.log"))
conf, res = {}, {}
for lf in logs:
    cur = None
    for line in open(lf, errors="replace"):
        line = line.rstrip("\n")
        if line.startswith("== "):
            cur = line[3:].strip()
        elif cur and line.startswith("RESULT clean:"):
            conf.setdefault(cur, []).append(line[7:])
        elif cur and line in ("CONFIRMED", "NOT-CONFIRMED"):
            conf.setdefault(cur, []).append(line)
        elif cur and line.startswith("RESULT {"):
            for p, r in json.loads(line[7:]).items():
                if r["exit"] in (0, 1):          # exit 2 = harness problem at that time: superseded by a later run
                    res.setdefault(cur, {})[p] = r
                else:
                    res.setdefault(cur, {}).setdefault(p, r)
rows = []
for d in sorted(glob.glob(os.path.join(VERIF, "seeded", "C*-*m*"))):
    sid = os.path.basename(d)
    prop = sid.split("-")[0]
    notes = open(os.path.join(d, "NOTES.md"), errors="replace").read() if os.path.exists(os.path.join(d, "NOTES.md")) else ""
    confirmed = "CONFIRMED" in conf.get(sid, [])
    r = res.get(sid, {})
    detected = sorted(p for p, x in r.items() if x["exit"] == 1)
    missed = sorted(p for p, x in r.items() if x["exit"] == 0)
    meta = dict(
        id=sid, breaks_property=prop,
        origin="written by an independent sub-agent that was given only the text of the property and its own scratch worktree of /repo (nothing from /verif)",
        what_and_what_it_needs=notes.strip()[:4000],
        files=sorted(os.listdir(d)),
        confirmed_by_me=dict(result=confirmed, how="bin/mutant_confirm.sh seeded/%s: scratch worktree of /repo; unmodified tree: 98 tests pass and demo exits 0; patched tree: builds, 98 tests pass, demo exits non-zero" % sid,
                             log=[x for x in conf.get(sid, []) if x.startswith("clean:")][-1:] ),
        checks_run={p: dict(tier="quick", exit=x["exit"], signatures=[s.replace("signature: ", "") for s in x["signatures"]][:4], wall_s=x["wall"]) for p, x in r.items()},
        detected_by=detected, missed_by=missed,
        how_checks_were_run="bin/mutant_eval.py seeded/%s <property...>: patch applied in a scratch worktree of /repo (never in /repo itself), checks run with CDNS_REPO pointing at it, worktree and build output removed afterwards" % sid)
    json.dump(meta, open(os.path.join(d, "meta.json"), "w"), indent=1)
    first = ""
    for l in notes.splitlines():
        l = l.strip("# ").strip()
        if len(l) > 25: first = l; break
    sig = ""
    for p in detected:
        s = r[p]["signatures"]
        if s: sig = s[0].replace("signature: ", "").split(" tags=")[0]; break
    rows.append((sid, first[:110], "yes" if confirmed else "NO", ", ".join(detected) or "-", ", ".join(missed) or "-", sig))
print("| seeded defect | what it does | confirmed | caught by (quick) | not caught by | first signature |")
print("|---|---|---|---|---|---|")
for r in rows:
    print("| " + " | ".join(r) + " |")
