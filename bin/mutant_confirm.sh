#!/bin/bash
# Confirm a seeded defect independently: bin/mutant_confirm.sh <dir with patch.diff and demo.cpp>
# (unmodified tree: tests + demo pass; patched tree: builds, the 98 tests still pass, demo fails). Uses a scratch worktree.
set -u
D=$(realpath "$1"); TAG=$(basename "$D")_$$; WT=/tmp/confirm_$TAG
git -C /repo worktree add -q --detach "$WT" HEAD || exit 2
cd "$WT"
build() { cmake -S . -B _build -G Ninja -DBUILD_TESTS=ON -DBUILD_DOC=OFF -DCMAKE_BUILD_TYPE=RelWithDebInfo >/dev/null 2>&1 && cmake --build _build >/dev/null 2>&1; }
demo() {
  if [ -f "$D/demo.sh" ]; then (cp -r "$D"/* . 2>/dev/null; bash ./demo.sh) >demo.out 2>&1; return $?; fi
  g++ -std=c++14 -msse4 -I src "$D/demo.cpp" -L _build -lcdns -lz -llzma -pthread -Wl,-rpath,$PWD/_build -o demo_bin >demo.build 2>&1 || { echo "DEMO-BUILD-FAILED"; tail -5 demo.build; return 99; }
  timeout 300 ./demo_bin >demo.out 2>&1; return $?
}
build || { echo "CLEAN-BUILD-FAILED"; }
T0=$(./_build/tests/tests 2>&1 | grep -c "PASSED  \] 98 tests")
demo; D0=$?
git apply "$D/patch.diff" || { echo "PATCH-DOES-NOT-APPLY"; cd /; git -C /repo worktree remove --force "$WT"; exit 2; }
build; B1=$?
T1=$(./_build/tests/tests 2>&1 | grep -c "PASSED  \] 98 tests")
demo; D1=$?
echo "RESULT clean: tests98=$T0 demo_exit=$D0 | patched: build=$B1 tests98=$T1 demo_exit=$D1 ($(tail -1 demo.out | cut -c1-120))"
cd /; git -C /repo worktree remove --force "$WT"
[ "$T0" = 1 ] && [ "$D0" = 0 ] && [ "$B1" = 0 ] && [ "$T1" = 1 ] && [ "$D1" != 0 ] && { echo CONFIRMED; exit 0; }
echo NOT-CONFIRMED; exit 1
