// Pipeline: producer task (real CdnsExporter over SimFS) driven by a seeded plan of API calls, a watcher that
// looks at every SimFS event, and a consumer (real CdnsReader + RefCDNS) that validates every output the moment
// it is closed. Shared by the pipeline engine (fault-free) and the fault engine.
#pragma once
#include "engine.h"
#include "gen.h"
#include "model.h"
#include "simfs.h"
#include <memory>

namespace ppl {
using namespace sim;


enum OpKind { O_QR, O_AEC, O_MM, O_WRITE, O_ROTATE, O_ADD, O_SET, O_CTR, O_EXT, O_EDIT };
static const char* OPN[] = {"buffer_qr", "buffer_aec", "buffer_mm", "write_block", "rotate_output", "add_block_parameters",
                            "set_active_block_parameters", "counters", "write_block(ext)", "edit-hints-in-place"};

struct POp {
    OpKind kind;
    uint64_t seed;
    bool stats = false;
    int stats_mode = 0;   // 0 partial 1 full 2 present-but-empty
    bool export_ = true;
    unsigned arg = 0;
};

struct Plan {
    gen::Swarm sw;
    std::vector<POp> ops;
};

inline gen::Profile pick_profile(const std::string& prop, Rng& r) {
    if (prop == "C01") return r.chance(1, 8) ? gen::P_BIG : r.chance(1, 5) ? gen::P_ROTATE : gen::P_GENERAL;
    if (prop == "C02") return r.chance(1, 600) ? gen::P_LONG : r.chance(1, 2) ? gen::P_EMPTY : r.chance(1, 2) ? gen::P_ROTATE : gen::P_GENERAL;
    if (prop == "C04") return gen::P_HINTS;
    if (prop == "C09") return gen::P_PREAMBLE;
    if (prop == "C10") return r.chance(1, 2) ? gen::P_ROTATE : r.chance(1, 4) ? gen::P_EMPTY : r.chance(1, 4) ? gen::P_BIG : gen::P_GENERAL;
    if (prop == "C11") return gen::P_TABLES;
    if (prop == "C12") return gen::P_FLUSH;
    if (prop == "C13") return r.chance(1, 400) ? gen::P_LONG : gen::P_ROTATE;
    if (prop == "C14") return r.chance(1, 3) ? gen::P_BIG : gen::P_ROTATE;
    if (prop == "C15") return gen::P_CRASH;
    if (prop == "C16") return gen::P_FAULT;
    if (prop == "C17") return gen::P_TIME;
    return gen::P_GENERAL;
}

inline Plan make_plan(uint64_t seed, const std::string& prop) {
    Rng pr(mix_str(seed, "profile"));
    gen::Profile prof = pick_profile(prop, pr);
    Plan p;
    p.sw = gen::swarm(seed, prof);
    if (prop == "C14" && p.sw.compression == 0) p.sw.compression = 1 + (int)pr.below(2);
    Rng r(mix_str(seed, "ops"));
    const gen::Swarm& s = p.sw;
    unsigned wsum = s.w_qr + s.w_aec + s.w_mm + s.w_write + s.w_rotate + s.w_add + s.w_set + s.w_ctr + s.w_ext + s.w_edit;
    for (unsigned i = 0; i < s.n_ops; i++) {
        POp op;
        unsigned x = (unsigned)r.below(wsum);
        unsigned acc = 0;
        auto in = [&](unsigned w) { acc += w; return x < acc; };
        if (in(s.w_qr)) op.kind = O_QR;
        else if (in(s.w_aec)) op.kind = O_AEC;
        else if (in(s.w_mm)) op.kind = O_MM;
        else if (in(s.w_write)) op.kind = O_WRITE;
        else if (in(s.w_rotate)) op.kind = O_ROTATE;
        else if (in(s.w_add)) op.kind = O_ADD;
        else if (in(s.w_set)) op.kind = O_SET;
        else if (in(s.w_ctr)) op.kind = O_CTR;
        else if (in(s.w_edit)) op.kind = O_EDIT;
        else op.kind = O_EXT;
        op.seed = r.next();
        op.stats = r.below(1000) < s.stats_pm;
        op.stats_mode = r.below(1000) < s.empty_stats_pm ? 2 : (int)r.below(2);
        op.export_ = r.below(1000) < s.rotate_export_pm;
        op.arg = (unsigned)r.below(64);
        p.ops.push_back(op);
    }
    return p;
}

// canonical form of a parameter set as configured (same member names as RefCDNS uses)
struct PCanon {
    ref::MRec storage;
    bool has_cp = false;
    ref::MRec cp;
};
inline PCanon canon_params(const CDNS::BlockParameters& bp) {
    PCanon c;
    auto& sp = bp.storage_parameters;
    c.storage["tps"] = std::to_string(sp.ticks_per_second);
    c.storage["max"] = std::to_string(sp.max_block_items);
    c.storage["hints"] = std::to_string(sp.storage_hints.query_response_hints) + "/" + std::to_string(sp.storage_hints.query_response_signature_hints) +
                         "/" + std::to_string((unsigned)sp.storage_hints.rr_hints) + "/" + std::to_string((unsigned)sp.storage_hints.other_data_hints);
    std::string s = "[";
    for (auto o : sp.opcodes) s += std::to_string((unsigned)o) + ",";
    c.storage["opcodes"] = s + "]";
    s = "[";
    for (auto o : sp.rr_types) s += std::to_string((unsigned)o) + ",";
    c.storage["rrtypes"] = s + "]";
    if (sp.storage_flags) c.storage["flags"] = std::to_string((unsigned)*sp.storage_flags);
    if (sp.client_address_prefix_ipv4) c.storage["cp4"] = std::to_string((unsigned)*sp.client_address_prefix_ipv4);
    if (sp.client_address_prefix_ipv6) c.storage["cp6"] = std::to_string((unsigned)*sp.client_address_prefix_ipv6);
    if (sp.server_address_prefix_ipv4) c.storage["sp4"] = std::to_string((unsigned)*sp.server_address_prefix_ipv4);
    if (sp.server_address_prefix_ipv6) c.storage["sp6"] = std::to_string((unsigned)*sp.server_address_prefix_ipv6);
    if (sp.sampling_method) c.storage["sampling"] = hex(*sp.sampling_method);
    if (sp.anonymization_method) c.storage["anon"] = hex(*sp.anonymization_method);
    if (bp.collection_parameters) {
        c.has_cp = true;
        auto& p = *bp.collection_parameters;
        if (p.query_timeout) c.cp["query_timeout"] = std::to_string(*p.query_timeout);
        if (p.skew_timeout) c.cp["skew_timeout"] = std::to_string(*p.skew_timeout);
        if (p.snaplen) c.cp["snaplen"] = std::to_string(*p.snaplen);
        if (p.promisc) c.cp["promisc"] = *p.promisc ? "1" : "0";
        // empty list == absent (the writer has no way to express a present-but-empty list)
        if (!p.interfaces.empty()) { s = "["; for (auto& x : p.interfaces) s += hex(x) + ","; c.cp["interfaces"] = s + "]"; }
        if (!p.server_address.empty()) { s = "["; for (auto& x : p.server_address) s += hex(x) + ","; c.cp["server_address"] = s + "]"; }
        if (!p.vlan_ids.empty()) { s = "["; for (auto x : p.vlan_ids) s += std::to_string(x) + ","; c.cp["vlan_ids"] = s + "]"; }
        if (p.filter) c.cp["filter"] = hex(*p.filter);
        if (p.generator_id) c.cp["generator_id"] = hex(*p.generator_id);
        if (p.host_id) c.cp["host_id"] = hex(*p.host_id);
    }
    return c;
}

struct Pipeline {
    RunCtx& cx;
    Plan plan;
    simfs::FS& F;
    model::Exporter M;
    std::unique_ptr<CDNS::CdnsExporter> ex;
    std::vector<unsigned> header_sets;   // per set: 1 if usable in the current output
    size_t nsets_header = 0;             // sets contained in the header of the current output (valid once it has blocks)
    unsigned next_out = 0;
    const char* ext = "";
    unsigned stale_parts = 0;
    std::set<std::string> stale_part_names;
    int cur_fd = -1;
    unsigned late_used = 0;
    bool dead = false;

    Pipeline(RunCtx& c) : cx(c), F(simfs::fs()) {}

    void V(const std::string& prop, const std::string& cls, const std::string& detail) { cx.violation(prop, prop + "/" + cls, detail); }

    std::string out_name(unsigned k) const { return "/sim/o" + std::to_string(k); }

    void open_model_output(bool fd, const std::string& base = "") {
        M.out = model::MOutput();
        M.out.id = next_out;
        M.out.name = fd ? "fd:o" + std::to_string(next_out) : (base.empty() ? out_name(next_out) : base) + ext;
        M.blocks_written = 0;
        cur_base = base.empty() ? out_name(next_out) : base;
        next_out++;
    }
    bool checks_off = false;              // fault engine: output validation is done by its own protocol
    bool keep_plains = false;             // collect the uncompressed image of every closed output that holds blocks
    std::vector<std::string> plains;
    std::vector<std::string> closed_raw;  // raw bytes of every output at the moment it was closed by a rotation
    std::string cur_base;                 // name (without suffix) of the output currently open
    std::string cur_dest_path() const { return plan.sw.fd_output ? M.out.name : cur_base + ext + ".part"; }
    unsigned wcalls_of(const std::string& path) const {
        for (auto& kv : F.open_files) if (kv.second.path == path) return kv.second.wcalls;
        return 0;
    }
    std::string read_raw(const model::MOutput& mo) const {
        if (mo.name.compare(0, 3, "fd:") == 0) { auto ino = F.fd_inode(mo.name.substr(3)); return ino ? ino->data : std::string(); }
        if (F.exists(mo.name)) return F.get(mo.name);
        if (F.exists(mo.name + ".part")) return F.get(mo.name + ".part");
        return std::string();
    }
    std::vector<std::string> old_files;   // final names pre-populated with older complete content
    std::map<std::string, uint64_t> old_ids, old_hash;
    uint64_t crash_points = 0;

    // --- validation of one closed output ---------------------------------------------------
    void validate(model::MOutput& mo) {
        if (checks_off) return;
        std::string raw;
        bool named = mo.name.compare(0, 3, "fd:") != 0;
        if (named) {
            if (!F.exists(mo.name)) {
                V("C13", "I12/output-missing", "closed output " + mo.name + " does not exist under its final name");
                if (plan.sw.compression) V("C14", "I13/suffix", "no file named " + mo.name);
                return;
            }
            raw = F.get(mo.name);
            // (a .part of the same name legitimately exists when the output now open was rotated onto this very name)
            if (F.exists(mo.name + ".part") && !(ex && M.out.name == mo.name)) V("C15", "I14/part-left", mo.name + ".part still exists after close");
        } else {
            auto ino = F.fd_inode(mo.name.substr(3));
            if (!ino) throw Failure("fd inode missing");
            raw = ino->data;
            if (ino->opens != 0) V("C13", "I11/fd-not-closed", "descriptor output " + mo.name + " not closed by rotation");
        }
        cx.ctr->add("outputs_validated");
        std::string plain, err;
        if (plan.sw.compression == 0) plain = raw;
        else {
            bool ok = plan.sw.compression == 1 ? model::gunzip_exact(raw, plain, err) : model::unxz_exact(raw, plain, err);
            if (!ok) {
                V("C14", "I13/not-one-complete-stream", mo.name + ": " + err);
                if (named) V("C15", "I14/invalid-file-under-final-name", mo.name + " was given its final name but is not one complete compressed stream: " + err);
                return;
            }
            cx.ctr->add("outputs_decompressed");
        }
        // Σ returned counts = uncompressed size (the closing break written by the destructor is returned to nobody)
        uint64_t expect_sum = plain.size() - ((mo.closed_by_destruction && !mo.blocks.empty() && !plain.empty()) ? 1 : 0);
        if (mo.ret_sum != expect_sum)
            V("C10", "I17/byte-count", mo.name + ": sum of returned counts " + std::to_string(mo.ret_sum) + " != uncompressed bytes " +
                                          std::to_string(expect_sum) + (mo.closed_by_destruction ? " (closed by destruction)" : ""));
        if (mo.blocks.empty()) {
            cx.ctr->add("probe.output_with_zero_blocks");
            if (!plain.empty()) V("C02", "I03/nonempty-without-blocks", mo.name + " holds " + std::to_string(plain.size()) + " bytes but no block was written");
            return;
        }
        if (keep_plains) plains.push_back(plain);
        if (mo.blocks.size() > 65536) cx.ctr->add("probe.output_with_more_than_65536_blocks");
        if (plain.size() > 65535) cx.ctr->add("probe.output_over_one_decoder_window");
        if (plain.size() > 131070) cx.ctr->add("probe.output_over_two_decoder_windows");
        // independent reader
        ref::RFile rf;
        bool ref_ok = false;
        try {
            rf = ref::Interp::file(plain);
            ref_ok = true;
        } catch (ref::Malformed& e) {
            V("C02", "I02/malformed-cbor", mo.name + ": " + e.what());
            V("C13", "I12/closed-output-not-a-complete-file", mo.name + ": " + e.what());
            if (named) V("C15", "I14/invalid-file-under-final-name", mo.name + " was given its final name but is not a complete output: " + e.what());
        } catch (ref::SchemaError& e) {
            V("C02", "I02/schema", mo.name + ": " + e.what());
            V("C13", "I12/closed-output-not-a-complete-file", mo.name + ": " + e.what());
            if (named) V("C15", "I14/invalid-file-under-final-name", mo.name + " was given its final name but is not a complete output: " + e.what());
        }
        // the library's own reader
        CDNS::FilePreamble rpre;
        model::VFile vf = model::view_bytes(plain, &rpre);
        if (!vf.ended_clean)
            V("C01", "I01/reader-rejects-own-output", mo.name + ": " + vf.error_type + ": " + vf.error);

        if (ref_ok) {
            check_preamble_ref(mo, rf);
            compare_blocks(mo, rf);
        }
        // C09: a preamble the library wrote must at least be readable by the library (the constructor reads header + preamble)
        if (!vf.opened)
            V("C09", "I25/preamble-unreadable(reader)", mo.name + ": " + vf.error_type + ": " + vf.error);
        if (vf.ended_clean) {
            check_preamble_reader(mo, rpre, "");
            // ... and it stays what was read while the blocks are being read, and every block carries its own set
            if (vf.has_pre_after) check_preamble_reader(mo, vf.pre_after, "/after-reading-blocks");
            std::vector<uint64_t> set_fp;
            for (auto& bp : rpre.m_block_parameters) set_fp.push_back(model::params_fp(bp));
            for (size_t i = 0; i < vf.blocks.size(); i++) {
                const model::VBlock& b = vf.blocks[i];
                if (b.bp_index >= set_fp.size()) continue;
                if (b.params_fp != set_fp[b.bp_index]) {
                    V("C09", "I25/parameters-attached-to-block(reader)", mo.name + " block " + std::to_string(i) + ": the parameter set the reader attached to the block differs from set " + std::to_string(b.bp_index) + " of the preamble it read");
                    break;
                }
            }
            compare_blocks_reader(mo, vf);
        }
    }

    void check_preamble_ref(model::MOutput& mo, const ref::RFile& rf) {
        const gen::Swarm& s = plan.sw;
        if (rf.major != s.major || rf.minor != s.minor) V("C09", "I25/version", mo.name + ": format version differs");
        if (rf.has_private != s.private_version || (rf.has_private && rf.priv != s.priv))
            V("C09", "I25/private-version(ref)", mo.name + ": private version written " + (rf.has_private ? std::to_string(rf.priv) : std::string("absent")) +
                                                     " configured " + (s.private_version ? std::to_string(s.priv) : std::string("absent")));
        if (rf.params.size() != mo.nsets_at_open) {
            V("C13", "I12/preamble-set-count", mo.name + ": preamble has " + std::to_string(rf.params.size()) + " parameter sets, expected " + std::to_string(mo.nsets_at_open));
        }
        for (size_t i = 0; i < rf.params.size() && i < M.params.size(); i++) {
            PCanon c = canon_params(M.params[i]);
            std::string d = ref::first_diff(c.storage, rf.params[i].storage);
            if (!d.empty()) {
                bool hints = d.find("'hints'") != std::string::npos;
                V(hints ? "C04" : "C09", hints ? "I04/preamble-hints" : "I25/storage-parameters(ref)", mo.name + " set " + std::to_string(i) + ": " + d);
            }
            if (c.has_cp != rf.params[i].has_collection)
                V("C09", "I25/collection-presence(ref)", mo.name + " set " + std::to_string(i) + ": collection parameters " + (c.has_cp ? "configured but absent" : "absent but written"));
            else if (c.has_cp) {
                d = ref::first_diff(c.cp, rf.params[i].collection);
                if (!d.empty()) V("C09", "I25/collection-parameters(ref)", mo.name + " set " + std::to_string(i) + ": " + d);
            }
        }
    }

    void check_preamble_reader(model::MOutput& mo, CDNS::FilePreamble& rp, const std::string& when) {
        const gen::Swarm& s = plan.sw;
        if (rp.m_major_format_version != s.major || rp.m_minor_format_version != s.minor) V("C09", "I25/version(reader)" + when, mo.name);
        bool hp = !!rp.m_private_version;
        if (hp != s.private_version || (hp && *rp.m_private_version != s.priv))
            V("C09", "I25/private-version(reader)" + when, mo.name + ": read back " + (hp ? std::to_string(*rp.m_private_version) : std::string("absent")) +
                                                        ", configured " + (s.private_version ? std::to_string(s.priv) : std::string("absent")));
        if (rp.m_block_parameters.size() != mo.nsets_at_open)
            V("C09", "I25/set-count(reader)" + when, mo.name + ": read back " + std::to_string(rp.m_block_parameters.size()) + " sets");
        for (size_t i = 0; i < rp.m_block_parameters.size() && i < M.params.size(); i++) {
            PCanon c = canon_params(M.params[i]), g = canon_params(rp.m_block_parameters[i]);
            std::string d = ref::first_diff(c.storage, g.storage);
            if (!d.empty()) V("C09", "I25/storage-parameters(reader)" + when, mo.name + " set " + std::to_string(i) + ": " + d);
            if (c.has_cp != g.has_cp)
                V("C09", "I25/collection-presence(reader)" + when, mo.name + " set " + std::to_string(i) + ": collection parameters " + (c.has_cp ? "configured, read back absent" : "absent, read back present"));
            else if (c.has_cp) {
                d = ref::first_diff(c.cp, g.cp);
                if (!d.empty()) V("C09", "I25/collection-parameters(reader)" + when, mo.name + " set " + std::to_string(i) + ": " + d);
            }
        }
    }

    static bool qr_equal(const ref::MRec& got, const ref::MRec& a, const ref::MRec& b) { return got == a || got == b; }

    void compare_blocks(model::MOutput& mo, const ref::RFile& rf) {
        if (rf.blocks.size() != mo.blocks.size()) {
            V("C01", "I01/block-count(ref)", mo.name + ": file has " + std::to_string(rf.blocks.size()) + " blocks, model " + std::to_string(mo.blocks.size()));
            V("C12", "I10/block-count", mo.name + ": file has " + std::to_string(rf.blocks.size()) + " blocks, model " + std::to_string(mo.blocks.size()));
            return;
        }
        if (!rf.blocks_indef) cx.ctr->add("probe.definite_block_array");
        for (size_t i = 0; i < rf.blocks.size(); i++) {
            const ref::RBlock& b = rf.blocks[i];
            model::MBlock& m = mo.blocks[i];
            std::string where = mo.name + " block " + std::to_string(i);
            // C12: non-empty, no array above the maximum
            uint64_t Mx = M.params[m.set].storage_parameters.max_block_items;
            if (Mx == 0) Mx = 1;
            size_t items = b.qr.size() + b.aec.size() + b.mm.size();
            if (items == 0) V("C12", "I09/empty-block", where + " holds no item");
            if (!m.opaque && (b.qr.size() > Mx || b.aec.size() > Mx || b.mm.size() > Mx))
                V("C12", "I09/array-above-max", where + ": arrays " + std::to_string(b.qr.size()) + "/" + std::to_string(b.aec.size()) + "/" + std::to_string(b.mm.size()) + " max " + std::to_string(Mx));
            if (b.empty_item) V("C02", "I02/empty-item", where + " contains an item map without any member");
            // C11: duplicates; C04/C11: unreachable
            for (auto& d : b.duplicates) V("C11", "I06/duplicate-table-entry", where + ": " + d);
            if (!m.opaque)
                for (auto& d : b.unreachable) {
                    V("C04", "I05/unreachable-table-entry", where + ": " + d);
                    V("C11", "I05/unreachable-table-entry", where + ": " + d);
                }
            // C17
            if (b.max_offset >> 63) V("C17", "I20/offset-not-below-2^63", where + ": stored offset " + std::to_string(b.max_offset));
            if ((b.bp_index) != m.set) V("C01", "I01/block-parameters-index(ref)", where + ": index " + std::to_string(b.bp_index) + " model " + std::to_string(m.set));
            if (m.opaque) {
                if (b.qr.size() != m.opaque_qr || b.aec.size() != m.opaque_aec || b.mm.size() != m.opaque_mm)
                    V("C02", "I02/direct-block-item-count", where + ": item counts differ from the block handed to write_block");
                continue;
            }
            // C04: nothing the hints exclude
            model::Hints h = model::Hints::of(M.params[m.set]);
            for (auto& mem : b.members) {
                bool ok = true;
                if (mem.compare(0, 3, "qr.") == 0 && mem != "qr.rq") ok = (h.qr >> std::stoi(mem.substr(3))) & 1;
                else if (mem.compare(0, 4, "sig.") == 0) ok = ((h.sig >> std::stoi(mem.substr(4))) & 1) && ((h.qr >> 4) & 1);
                else if (mem.compare(0, 3, "rr.") == 0) ok = (h.rr >> std::stoi(mem.substr(3))) & 1;
                if (!ok) V("C04", "I04/member-despite-cleared-hint", where + ": member " + mem + " present, hints " + std::to_string(h.qr) + "/" + std::to_string(h.sig) + "/" + std::to_string(h.rr));
            }
            if (b.has_aec_array && !(h.other & 2)) V("C04", "I04/aec-despite-cleared-hint", where);
            if (b.has_mm_array && !(h.other & 1)) V("C04", "I04/mm-despite-cleared-hint", where);
            // ... and nothing the set the block itself REFERS TO excludes ("the preamble states exactly the hints that were applied")
            if (b.bp_index != m.set && b.bp_index < M.params.size()) {
                model::Hints hs = model::Hints::of(M.params[b.bp_index]);
                std::string bad;
                for (auto& mem : b.members) {
                    bool ok = true;
                    if (mem.compare(0, 3, "qr.") == 0 && mem != "qr.rq") ok = (hs.qr >> std::stoi(mem.substr(3))) & 1;
                    else if (mem.compare(0, 4, "sig.") == 0) ok = ((hs.sig >> std::stoi(mem.substr(4))) & 1) && ((hs.qr >> 4) & 1);
                    else if (mem.compare(0, 3, "rr.") == 0) ok = (hs.rr >> std::stoi(mem.substr(3))) & 1;
                    if (!ok && bad.empty()) bad = "member " + mem;
                }
                if (bad.empty() && b.has_aec_array && !(hs.other & 2)) bad = "address events";
                if (bad.empty() && b.has_mm_array && !(hs.other & 1)) bad = "malformed messages";
                if (!bad.empty())
                    V("C04", "I04/excluded-by-the-set-the-block-states", where + ": " + bad + " present although the block refers to parameter set " + std::to_string(b.bp_index) + " (built under set " + std::to_string(m.set) +
                                                                             "), whose hints " + std::to_string(hs.qr) + "/" + std::to_string(hs.sig) + "/" + std::to_string((unsigned)hs.rr) + "/" + std::to_string((unsigned)hs.other) + " exclude it");
            }
            // C01: content
            bool same = true;
            if (b.qr.size() != m.qr.size()) { V("C01", "I01/qr-count(ref)", where + ": " + std::to_string(b.qr.size()) + " vs model " + std::to_string(m.qr.size())); same = false; }
            else for (size_t k = 0; k < b.qr.size(); k++)
                if (!qr_equal(b.qr[k], m.qr[k], m.qr_alt[k])) {
                    std::string d = ref::first_diff(m.qr[k], b.qr[k]);
                    bool tsd = d.find("'ts'") != std::string::npos;
                    V("C01", "I01/qr-content(ref)", where + " qr " + std::to_string(k) + ": " + d);
                    if (tsd) V("C17", "I20/record-time-not-recovered", where + " qr " + std::to_string(k) + ": " + d);
                    // a member that is stored as an index into a block table resolves to another value than the one that was added
                    {
                        static const char* inl[] = {"'ts'", "'client_port'", "'transaction_id'", "'client_hoplimit'", "'response_delay'", "'query_size'", "'response_size'", "'asn'", "'country_code'", "'round_trip_time'", "'processing_flags'"};
                        bool inline_member = false;
                        for (auto* m : inl) if (d.find(m) != std::string::npos) inline_member = true;
                        if (!inline_member && d.find("member '") != std::string::npos && d.find("' (=") == std::string::npos)
                            V("C11", "I07/value-denoted-by-stored-index-differs", where + " qr " + std::to_string(k) + ": " + d);
                    }
                    same = false;
                    break;
                }
            if (b.mm.size() != m.mm.size()) { V("C01", "I01/mm-count(ref)", where + ": " + std::to_string(b.mm.size()) + " vs model " + std::to_string(m.mm.size())); same = false; }
            else for (size_t k = 0; k < b.mm.size(); k++)
                if (b.mm[k] != m.mm[k]) {
                    std::string d = ref::first_diff(m.mm[k], b.mm[k]);
                    V("C01", "I01/mm-content(ref)", where + " mm " + std::to_string(k) + ": " + d);
                    if (d.find("'ts'") != std::string::npos) V("C17", "I20/record-time-not-recovered", where + " mm " + std::to_string(k) + ": " + d);
                    same = false;
                    break;
                }
            std::map<std::string, uint64_t> got;
            for (auto& a : b.aec) got[ref::dump(a.first)] += a.second;
            if (got.size() != b.aec.size()) V("C11", "I06/duplicate-aec-key", where + ": two address-event items with the same key");
            if (got != m.aec) { V("C01", "I01/aec-content(ref)", where + ": address-event counts differ from the model"); same = false; }
            ref::MRec st = b.stats;
            if (b.has_stats != m.has_stats && !(m.has_stats && m.stats.empty() && !b.has_stats) && !(b.has_stats && b.stats.empty() && !m.has_stats))
                V("C01", "I01/statistics-presence(ref)", where + ": statistics " + (b.has_stats ? "present" : "absent") + ", model " + (m.has_stats ? "present" : "absent"));
            else if (st != m.stats) V("C01", "I01/statistics-content(ref)", where + ": " + ref::first_diff(m.stats, st));
            if (same) cx.ctr->add("blocks_equal_to_model");
            if (same && b.qr.size() + b.mm.size() > 0) cx.ctr->add("records_compared", b.qr.size() + b.mm.size() + b.aec.size());
        }
    }

    void compare_blocks_reader(model::MOutput& mo, const model::VFile& vf) {
        if (vf.blocks.size() != mo.blocks.size()) {
            V("C01", "I01/block-count(reader)", mo.name + ": reader returned " + std::to_string(vf.blocks.size()) + " blocks, model " + std::to_string(mo.blocks.size()));
            return;
        }
        for (size_t i = 0; i < vf.blocks.size(); i++) {
            const model::VBlock& b = vf.blocks[i];
            model::MBlock& m = mo.blocks[i];
            std::string where = mo.name + " block " + std::to_string(i);
            if (m.opaque) continue;
            if (b.bp_index != m.set) V("C01", "I01/block-parameters-index(reader)", where);
            if (b.qr.size() != m.qr.size()) V("C01", "I01/qr-count(reader)", where + ": " + std::to_string(b.qr.size()) + " vs model " + std::to_string(m.qr.size()));
            else for (size_t k = 0; k < b.qr.size(); k++)
                if (!qr_equal(b.qr[k], m.qr[k], m.qr_alt[k])) {
                    std::string d = ref::first_diff(m.qr[k], b.qr[k]);
                    V("C01", "I01/qr-content(reader)", where + " qr " + std::to_string(k) + ": " + d);
                    if (d.find("'ts'") != std::string::npos) V("C17", "I20/record-time-not-recovered(reader)", where + " qr " + std::to_string(k) + ": " + d);
                    break;
                }
            if (b.mm.size() != m.mm.size()) V("C01", "I01/mm-count(reader)", where);
            else for (size_t k = 0; k < b.mm.size(); k++)
                if (b.mm[k] != m.mm[k]) {
                    std::string d = ref::first_diff(m.mm[k], b.mm[k]);
                    V("C01", "I01/mm-content(reader)", where + " mm " + std::to_string(k) + ": " + d);
                    if (d.find("'ts'") != std::string::npos) V("C17", "I20/record-time-not-recovered(reader)", where + " mm " + std::to_string(k) + ": " + d);
                    break;
                }
            if (b.aec != m.aec) V("C01", "I01/aec-content(reader)", where + ": address-event counts differ from the model");
            if (b.has_stats != m.has_stats && !(m.has_stats && m.stats.empty()) && !(b.has_stats && b.stats.empty()))
                V("C01", "I01/statistics-presence(reader)", where);
            else if (b.stats != m.stats) V("C01", "I01/statistics-content(reader)", where + ": " + ref::first_diff(m.stats, b.stats));
        }
    }

    // --- the watcher: evaluated after every SimFS event -----------------------------------------
    void on_event(const simfs::Event& e) {
        if (checks_off) return;
        if (e.kind == simfs::Ev::WRITE && e.inode && e.result > 0 && e.inode->writes_after_final) {
            V("C13", "I11/write-to-closed-output", e.path + " received bytes after it was closed / visible under its final name");
            V("C15", "I11/write-to-final-name", e.path + " received bytes while visible under a final name");
            e.inode->writes_after_final = 0;
        }
        if (e.kind == simfs::Ev::RENAME && e.result == 0 && e.inode && e.inode->opens > 0)
            V("C15", "I14/renamed-while-open", e.path + " renamed to " + e.path2 + " while still open for writing");
        if (e.kind == simfs::Ev::OPEN_W && e.path.compare(0, 3, "fd:") != 0 && (e.path.size() < 5 || e.path.compare(e.path.size() - 5, 5, ".part") != 0))
            V("C15", "I14/final-name-opened-for-writing", e.path + " opened for writing directly (data must go to <name><suffix>.part)");
        if (e.kind == simfs::Ev::WRITE || e.kind == simfs::Ev::RENAME || e.kind == simfs::Ev::CLOSE || e.kind == simfs::Ev::OPEN_W) {
            // crash point: the process dies right after this call. Every file under a final name must be an intact older
            // file or a complete output; completeness of an inode is decided when it is closed (validate), immutability here.
            crash_points++;
            for (auto& of : old_files) {
                auto it = F.dir.find(of);
                if (it != F.dir.end() && it->second->id == old_ids[of] && fnv1a(it->second->data) != old_hash[of])
                    V("C15", "I14/older-file-damaged", of + " was modified in place before being replaced");
            }
        }
    }

    // --- helpers ----------------------------------------------------------------------------------
    void close_model_output(bool by_destruction) {
        M.out.closed_by_destruction = by_destruction;
        M.out.nsets_at_open = nsets_header;
        M.closed.push_back(M.out);
    }
    void after_call(size_t ret, bool model_wrote, const char* what, unsigned opi) {
        M.out.ret_sum += ret;
        if (model_wrote) {
            if (M.out.blocks.size() == 1 && nsets_header == 0) nsets_header = M.params.size();
            if (ret == 0) V("C12", "I08/zero-return-although-block-written", std::string(what) + " (op " + std::to_string(opi) + ") wrote a block per model but returned 0");
        } else if (ret != 0) {
            V("C12", "I08/nonzero-return-without-block", std::string(what) + " (op " + std::to_string(opi) + ") returned " + std::to_string(ret) + " but the model wrote no block");
        }
        check_counters(what, opi);
    }
    void check_counters(const char* what, unsigned opi) {
        size_t q = ex->get_block_qr_count(), a = ex->get_block_aec_count(), m = ex->get_block_mm_count();
        if (q != M.cur.qr.size() || a != M.cur.aec.size() || m != M.cur.mm.size() || ex->get_block_item_count() != q + a + m)
            V("C12", "I08/item-counters", std::string("after ") + what + " (op " + std::to_string(opi) + "): exporter reports " + std::to_string(q) + "/" + std::to_string(a) + "/" +
                                              std::to_string(m) + ", model " + std::to_string(M.cur.qr.size()) + "/" + std::to_string(M.cur.aec.size()) + "/" + std::to_string(M.cur.mm.size()));
        if (ex->get_blocks_written_count() != M.blocks_written)
            V("C12", "I08/blocks-written-counter", std::string("after ") + what + ": exporter reports " + std::to_string(ex->get_blocks_written_count()) + ", model " + std::to_string(M.blocks_written));
        if (ex->get_active_block_parameters() != M.active)
            V("C12", "I08/active-parameters", std::string("after ") + what);
    }

    uint64_t cur_tps() const { return M.params[M.cur.set].storage_parameters.ticks_per_second; }

    void probe_state() {
        uint64_t Mx = M.maxi() ? M.maxi() : 1;
        auto lvl = [&](size_t n) { return n == 0 ? '0' : n + 1 >= Mx ? 'F' : 'p'; };
        std::string k;
        k += M.blocks_written ? 'B' : 'b';
        k += lvl(M.cur.qr.size()); k += lvl(M.cur.aec.size()); k += lvl(M.cur.mm.size());
        k += 'a' + (char)(M.active % 8);
        k += plan.sw.fd_output ? 'd' : 'n';
        k += '0' + plan.sw.compression;
        k += M.maxi() == 0 ? 'z' : M.maxi() <= 3 ? 's' : 'l';
        states.insert(k);
    }
    std::set<std::string> states;

    void exec(unsigned i, const POp& op) {
        gen::RecGen g(plan.sw, op.seed);
        std::string d;
        switch (op.kind) {
            case O_QR: {
                CDNS::GenericQueryResponse rec = g.qr(cur_tps());
                if (plan.sw.force_storable && !rec.asn) rec.asn = std::string("AS") + std::to_string(i);
                model::Hints h = model::Hints::of(M.params[M.cur.set]);
                ref::MRec e = model::expect_qr(rec, h, (h.qr >> 11) & 1), alt = model::expect_qr(rec, h, true);
                if (e.empty() != alt.empty()) rec.response_questions = boost::none;  // storability must not hinge on the unconstrained member
                bool storable = !model::expect_qr(rec, h, (h.qr >> 11) & 1).empty();
                boost::optional<CDNS::BlockStatistics> st;
                CDNS::BlockStatistics sv;
                if (op.stats && storable) { sv = g.stats(op.stats_mode); st = sv; cx.tag(op.stats_mode == 2 ? "stats-empty" : "stats"); }
                if (!storable) { cx.ctr->add("probe.unstorable_qr"); cx.tag("qr-unstorable"); } else cx.tag("qr");
                if (rec.ts) cx.tag("timed"); else cx.tag("untimed");
                M.add_qr(rec, st ? &sv : nullptr);
                size_t ret = ex->buffer_qr(rec, st);
                bool by_qr = M.cur.qr.size() >= (M.maxi() ? M.maxi() : 1);
                bool wrote = M.maybe_flush();
                if (wrote && by_qr) cx.ctr->add("probe.flush_by_qr_array");
                after_call(ret, wrote, "buffer_qr", i);
                break;
            }
            case O_AEC: {
                CDNS::GenericAddressEventCount rec = g.aec();
                model::Hints h = model::Hints::of(M.params[M.cur.set]);
                bool storable = h.other & 2;
                boost::optional<CDNS::BlockStatistics> st;
                CDNS::BlockStatistics sv;
                if (op.stats && storable) { sv = g.stats(op.stats_mode); st = sv; cx.tag(op.stats_mode == 2 ? "stats-empty" : "stats"); }
                cx.tag(storable ? "aec" : "aec-hint-off");
                bool repeat = M.cur.aec.count(ref::dump(model::to_mrec_key(rec)));
                if (repeat) cx.ctr->add("probe.aec_key_repeated");
                bool applies = M.add_aec(rec, st ? &sv : nullptr);
                size_t ret = ex->buffer_aec(rec, st);
                bool wrote = applies ? M.maybe_flush() : false;
                if (wrote) cx.ctr->add("probe.flush_by_aec_array");
                after_call(ret, wrote, "buffer_aec", i);
                break;
            }
            case O_MM: {
                CDNS::GenericMalformedMessage rec = g.mm(cur_tps());
                model::Hints h = model::Hints::of(M.params[M.cur.set]);
                bool storable = (h.other & 1) && !model::to_mrec(rec).empty();
                boost::optional<CDNS::BlockStatistics> st;
                CDNS::BlockStatistics sv;
                if (op.stats && storable) { sv = g.stats(op.stats_mode); st = sv; cx.tag(op.stats_mode == 2 ? "stats-empty" : "stats"); }
                cx.tag(storable ? "mm" : "mm-unstorable");
                if (rec.mm_payload) cx.tag("mm-payload");
                bool applies = M.add_mm(rec, st ? &sv : nullptr);
                size_t ret = ex->buffer_mm(rec, st);
                bool wrote = applies ? M.maybe_flush() : false;
                if (wrote) cx.ctr->add("probe.flush_by_mm_array");
                after_call(ret, wrote, "buffer_mm", i);
                break;
            }
            case O_WRITE: {
                cx.tag("write_block");
                if (M.cur.items() == 0) cx.ctr->add("probe.write_block_on_empty");
                size_t ret = ex->write_block();
                bool wrote = M.write_block();
                after_call(ret, wrote, "write_block", i);
                break;
            }
            case O_ROTATE: {
                cx.tag(op.export_ ? "rotate-export" : "rotate-noexport");
                if (M.out.blocks.empty() && !(op.export_ && M.cur.items())) cx.ctr->add("probe.rotation_with_zero_blocks");
                if (!op.export_ && M.cur.items()) cx.ctr->add("probe.rotation_with_pending_block");
                size_t ret;
                bool wrote = false;
                unsigned id = next_out;
                std::string target;
                if (plan.sw.fd_output) {
                    int fd = F.make_fd("o" + std::to_string(id));
                    ret = ex->rotate_output(fd, op.export_);
                    cur_fd = fd;
                } else {
                    // crash scenarios also rotate onto a name that already holds an older file, and onto the name currently open
                    if (!old_files.empty() && (op.arg & 3) == 2) { target = "/sim/old" + std::to_string((op.arg >> 2) % old_files.size()); cx.tag("rotate-onto-existing"); cx.ctr->add("probe.rotation_onto_existing_name"); }
                    else if ((!old_files.empty() && (op.arg & 3) == 3) || (op.arg % 11) == 7) { target = cur_base; cx.tag("rotate-onto-open-name"); cx.ctr->add("probe.rotation_onto_open_name"); }
                    else target = out_name(id);
                    ret = ex->rotate_output(target, op.export_);
                }
                if (op.export_) wrote = M.write_block();
                if (wrote && M.out.blocks.size() == 1 && nsets_header == 0) nsets_header = M.params.size();
                M.out.ret_sum += ret;
                bool had_blocks = !M.out.blocks.empty();
                if (had_blocks && ret == 0) V("C10", "I17/rotate-returned-zero", "rotate_output closed an output with blocks but returned 0");
                if (!had_blocks && ret != 0) V("C12", "I08/nonzero-return-without-block", "rotate_output (op " + std::to_string(i) + ") returned " + std::to_string(ret) + " for an output without blocks");
                close_model_output(false);
                model::MOutput closed = M.closed.back();
                closed_raw.push_back(read_raw(closed));
                open_model_output(plan.sw.fd_output, target);
                nsets_header = 0;
                check_counters("rotate_output", i);
                validate(closed);
                break;
            }
            case O_ADD: {
                if (late_used >= plan.sw.late_sets.size()) break;
                cx.tag("add_block_parameters");
                CDNS::BlockParameters bp = plan.sw.late_sets[late_used++];
                CDNS::index_t idx = ex->add_block_parameters(bp);
                M.params.push_back(bp);
                if (idx != M.params.size() - 1) V("C13", "I12/add-parameters-index", "add_block_parameters returned " + std::to_string(idx));
                break;
            }
            case O_SET: {
                // documented precondition: a set added while the output already holds blocks is activated only after rotation
                size_t usable = M.out.blocks.empty() ? M.params.size() : nsets_header;
                unsigned idx = op.arg % (unsigned)(usable ? usable : 1);
                cx.tag("set_active");
                bool ok = ex->set_active_block_parameters(idx);
                if (!ok) V("C12", "I08/set-active-refused", "set_active_block_parameters(" + std::to_string(idx) + ") refused a valid index");
                else { if (idx != M.active) cx.ctr->add("probe.parameter_switch"); M.active = idx; }
                if (op.arg & 32) {
                    bool bad = ex->set_active_block_parameters((CDNS::index_t)M.params.size() + (op.arg & 3));
                    if (bad) V("C12", "I08/set-active-accepted-bad-index", "index beyond the preamble accepted");
                }
                check_counters("set_active_block_parameters", i);
                break;
            }
            case O_CTR: check_counters("counter query", i); break;
            case O_EDIT: {
                // The application edits the active parameter set in place through get_active_block_parameters_ref(). Done only
                // when nothing is buffered and the output holds no block yet (so that the preamble will state the new hints),
                // followed by write_block(), the documented way to make parameters take effect for the next block.
                if (!M.out.blocks.empty() || M.cur.items() != 0) break;
                cx.tag("edit-hints-in-place");
                cx.ctr->add("probe.hints_edited_in_place");
                CDNS::BlockParameters& ref = ex->get_active_block_parameters_ref();
                Rng q(op.seed);
                ref.storage_parameters.storage_hints.query_response_hints = gen::hint_mask(q, 18);
                ref.storage_parameters.storage_hints.query_response_signature_hints = gen::hint_mask(q, 17);
                ref.storage_parameters.storage_hints.rr_hints = (uint8_t)gen::hint_mask(q, 2);
                ref.storage_parameters.storage_hints.other_data_hints = q.chance(2, 3) ? 3 : (uint8_t)q.below(4);
                M.params[M.active] = ref;
                size_t ret = ex->write_block();
                bool wrote = M.write_block();
                after_call(ret, wrote, "write_block (after in-place edit)", i);
                break;
            }
            case O_EXT: exec_ext(i, op, g); break;
        }
        probe_state();
    }

    // a block the application builds directly and hands to write_block(block)
    void exec_ext(unsigned i, const POp& op, gen::RecGen& g) {
        size_t usable = M.out.blocks.empty() ? M.params.size() : nsets_header;
        unsigned set = op.arg % (unsigned)(usable ? usable : 1);
        CDNS::BlockParameters bp = M.params[set];
        uint64_t tps = bp.storage_parameters.ticks_per_second;
        CDNS::CdnsBlock blk(bp, set);
        Rng& r = g.r;
        bool empties = r.below(1000) < plan.sw.empty_struct_pm;
        cx.tag(empties ? "ext-block-empty-structs" : "ext-block");
        unsigned n = (unsigned)r.range(1, 4);
        for (unsigned k = 0; k < n; k++) {
            switch (r.below(4)) {
                case 0: blk.add_question_response_record(g.qr(tps)); break;
                case 1: blk.add_address_event_count(g.aec()); break;
                case 2: blk.add_malformed_message(g.mm(tps)); break;
                default: {
                    CDNS::QueryResponse q;
                    q.client_port = (uint16_t)r.below(65536);
                    if (r.coin()) q.client_address_index = blk.add_ip_address(g.ip());
                    if (r.coin()) q.query_name_index = blk.add_name_rdata(g.name());
                    if (r.coin()) q.time_offset = g.ts(tps);
                    if (empties) {
                        switch (r.below(6)) {
                            case 0: q.qr_signature_index = blk.add_qr_signature(CDNS::QueryResponseSignature()); cx.tag("empty-qr-signature"); break;
                            case 1: q.response_processing_data = CDNS::ResponseProcessingData(); cx.tag("empty-response-processing-data"); break;
                            case 2: q.query_extended = CDNS::QueryResponseExtended(); cx.tag("empty-query-extended"); break;
                            case 3: { CDNS::QueryResponseExtended e; e.question_index = blk.add_question_list({}); q.query_extended = e; cx.tag("empty-question-list"); break; }
                            case 4: { CDNS::QueryResponseExtended e; e.answer_index = blk.add_rr_list({}); q.response_extended = e; cx.tag("empty-rr-list"); break; }
                            default: {
                                CDNS::MalformedMessage m;
                                m.client_port = 53;
                                m.message_data_index = blk.add_malformed_message_data(CDNS::MalformedMessageData());
                                blk.add_malformed_message(m);
                                cx.tag("empty-malformed-message-data");
                                break;
                            }
                        }
                    }
                    blk.add_question_response_record(q);
                    break;
                }
            }
        }
        if (empties && r.coin()) { blk.m_block_statistics = CDNS::BlockStatistics(); cx.tag("stats-empty"); }
        size_t items = blk.get_item_count();
        size_t ret = ex->write_block(blk);
        M.out.ret_sum += ret;
        if (items > 0) {
            model::MBlock mb;
            mb.set = set;
            mb.opaque = true;
            mb.opaque_qr = blk.get_qr_count();
            mb.opaque_aec = blk.get_aec_count();
            mb.opaque_mm = blk.get_mm_count();
            M.out.blocks.push_back(mb);
            M.blocks_written++;
            if (M.out.blocks.size() == 1 && nsets_header == 0) nsets_header = M.params.size();
            if (ret == 0) V("C10", "I17/direct-block-returned-zero", "write_block(block) op " + std::to_string(i));
        } else if (ret != 0) V("C10", "I17/empty-direct-block-nonzero", "write_block(empty block) returned " + std::to_string(ret));
        check_counters("write_block(block)", i);
    }

    std::string describe_op(unsigned i, const POp& op) {
        std::string s = "#" + std::to_string(i) + " " + OPN[op.kind];
        if (op.kind <= O_MM) s += op.stats ? (op.stats_mode == 2 ? " +stats(empty)" : " +stats") : "";
        if (op.kind == O_ROTATE) s += op.export_ ? " export=true" : " export=false";
        if (op.kind == O_SET || op.kind == O_EXT) s += " arg=" + std::to_string(op.arg);
        s += " seed=" + std::to_string(op.seed);
        return s;
    }

    void setup(bool with_watcher = true) {
        plan = make_plan(cx.seed, cx.prop);
        if (cx.prop == "C04" && cx.slots == 78) {
            // deterministic hint sweep: slot = (bit 0..38, mode). Bits 0..17 query-response hints, 18..34 signature hints,
            // 35..36 RR hints, 37..38 other-data hints; mode 0 = that bit is the only cleared one, mode 1 = the only set one
            // (within its mask; the other masks stay all-ones so that the bit's effect is observable).
            unsigned bit = cx.slot / 2, mode = cx.slot % 2;
            CDNS::StorageHints& h = plan.sw.sets[0].storage_parameters.storage_hints;
            h = CDNS::StorageHints();
            auto apply = [&](uint32_t all, unsigned b) { return mode == 0 ? (all & ~(1u << b)) : (1u << b); };
            if (bit < 18) h.query_response_hints = apply(0x3ffff, bit);
            else if (bit < 35) h.query_response_signature_hints = apply(0x1ffff, bit - 18);
            else if (bit < 37) h.rr_hints = (uint8_t)apply(3, bit - 35);
            else h.other_data_hints = (uint8_t)apply(3, bit - 37);
            plan.sw.sets.resize(1);
            plan.sw.late_sets.clear();
            plan.sw.w_add = 0;
            cx.ctr->add("probe.hint_sweep_slot_" + std::string(mode ? "only-set" : "only-cleared"));
            cx.tag("hint-sweep");
        }
        const gen::Swarm& s = plan.sw;
        cx.n_ops = (unsigned)plan.ops.size();
        ext = s.compression == 1 ? ".gz" : s.compression == 2 ? ".xz" : "";
        cx.tag(s.compression == 0 ? "plain" : s.compression == 1 ? "gzip" : "xz");
        cx.tag(s.fd_output ? "fd" : "named");
        if (!s.private_version) cx.tag("no-private-version");
        for (auto& bp : s.sets) if (bp.collection_parameters && canon_params(bp).cp.empty()) cx.tag("collection-parameters-empty");
        F.reset();
        F.log = &cx.log;
        F.ctr = cx.ctr;
        if (with_watcher) F.watcher = [this](const simfs::Event& e) { on_event(e); };
        if (s.crash_mode && !s.fd_output) {
            // older, complete files already sit under some of the names the scenario will rotate onto
            Rng r(mix_str(cx.seed, "oldfiles"));
            unsigned n = (unsigned)r.range(1, 3);
            for (unsigned k = 0; k < n; k++) {
                std::string name = "/sim/old" + std::to_string(k) + ext;
                std::string content = "older complete output #" + std::to_string(k) + " " + gen::bytes(r, r.range(10, 3000));
                F.put(name, content);
                old_files.push_back(name);
                old_ids[name] = F.dir[name]->id;
                old_hash[name] = fnv1a(content);
            }
        }
        if (!s.fd_output && !s.long_run && (mix_str(cx.seed, "stale-part") % 3) == 0) {
            // leftovers of an earlier run that was killed: non-empty '<name><ext>.part' files under names this scenario will open
            Rng r(mix_str(cx.seed, "stale-part-files"));
            for (unsigned k = 0; k < 6; k++) {
                if (!r.coin()) continue;
                std::string name = (k < 4 ? out_name(k) : "/sim/old" + std::to_string(k - 4)) + ext + ".part";
                F.put(name, "stale partial output of a killed run " + gen::bytes(r, r.range(1, 5000)));
                stale_part_names.insert(name);
                stale_parts++;
            }
            if (stale_parts) { cx.tag("stale-part-files"); cx.ctr->add("probe.stale_part_file_present"); }
        }
        if (cx.describe) {
            cx.description = "swarm{compression=" + std::to_string(s.compression) + " fd=" + std::to_string(s.fd_output) + " sets=" + std::to_string(s.sets.size()) +
                             " late=" + std::to_string(s.late_sets.size()) + " density=" + std::to_string(s.density_pm) + " pool=" + std::to_string(s.pool) + " private=" +
                             std::to_string(s.private_version) + " oldfiles=" + std::to_string(old_files.size()) + " stale-parts=" + std::to_string(stale_parts) + "}";
            for (size_t k = 0; k < s.sets.size(); k++) {
                auto& sp = s.sets[k].storage_parameters;
                cx.description += " set" + std::to_string(k) + "{tps=" + std::to_string(sp.ticks_per_second) + " max=" + std::to_string(sp.max_block_items) + " hints=" +
                                  std::to_string(sp.storage_hints.query_response_hints) + "/" + std::to_string(sp.storage_hints.query_response_signature_hints) + "/" +
                                  std::to_string((unsigned)sp.storage_hints.rr_hints) + "/" + std::to_string((unsigned)sp.storage_hints.other_data_hints) + "}";
            }
            for (unsigned i = 0; i < plan.ops.size(); i++) if (cx.kept(i)) cx.description += "; " + describe_op(i, plan.ops[i]);
        }
        std::vector<CDNS::BlockParameters> sets = s.sets;
        CDNS::FilePreamble fp(sets);
        fp.m_major_format_version = s.major;
        fp.m_minor_format_version = s.minor;
        if (s.private_version) fp.m_private_version = s.priv; else fp.m_private_version = boost::none;
        M.params = s.sets;
        M.cur.set = 0;
        open_model_output(s.fd_output);
        CDNS::CborOutputCompression comp = (CDNS::CborOutputCompression)s.compression;
        if (s.fd_output) {
            cur_fd = F.make_fd("o0");
            ex.reset(new CDNS::CdnsExporter(fp, cur_fd, comp));
        } else {
            ex.reset(new CDNS::CdnsExporter(fp, out_name(0), comp));
        }
    }

    void finish() {
        // destruction closes the last output
        cx.log.ev("DESTROY");
        if (plan.sw.destroy_by_unwinding) {
            // the application leaves the scope that owns the exporter by an exception of its own: the destruction chain runs while
            // std::uncaught_exception() is true
            cx.tag("destroyed-by-unwinding");
            cx.ctr->add("probe.destroyed_by_stack_unwinding");
            struct AppError {};
            try {
                std::unique_ptr<CDNS::CdnsExporter> local = std::move(ex);
                throw AppError();
            } catch (AppError&) {}
        }
        ex.reset();
        close_model_output(true);
        if (M.cur.items() > 0) cx.ctr->add("probe.destroyed_with_pending_block");
        model::MOutput last = M.closed.back();
        validate(last);
        // C13/I10 over the whole run: nothing lost, repeated or reordered across outputs is implied by the
        // per-output equality with the model; what is left to check is that no output appeared that the model does not know
        for (auto& path : F.list()) {
            bool known = false;
            for (auto& mo : M.closed) if (mo.name == path) known = true;
            for (auto& of : old_files) if (of == path) known = true;
            if (stale_part_names.count(path)) known = true;   // a leftover that was there before the run (never opened, or its output still open)
            if (!known) V("C13", "I12/unexpected-file", "file " + path + " exists but no rotation produced it");
        }
        if (F.any_open()) { V("C13", "I11/descriptor-leak", "an output is still open after the exporter was destroyed"); F.close_all_leaked(); }
        cx.ctr->add("outputs_closed", M.closed.size());
        cx.ctr->add("crash_points_checked", crash_points);
        for (auto& mo : M.closed) if (!mo.blocks.empty()) cx.nontrivial = true;   // rule: at least one block reached a file and was compared
        for (auto& k : states) cx.state_key += k + ",";
    }

    void run() {
        setup();
        for (unsigned i = 0; i < plan.ops.size(); i++) {
            if (!cx.kept(i)) continue;
            cx.log.ev(std::string("OP ") + std::to_string(i) + " " + OPN[plan.ops[i].kind]);
            exec(i, plan.ops[i]);
        }
        finish();
    }
};


// Valid C-DNS files for the read-side engines: whatever a seeded exporter run leaves behind (uncompressed images).
inline std::vector<std::string> produce_files(uint64_t seed, const std::string& profile_prop) {
    RunCtx c;
    Counters ctr;
    c.prop = profile_prop;
    c.seed = seed;
    c.ctr = &ctr;
    c.log.reset(false);
    Pipeline p(c);
    p.keep_plains = true;
    try {
        p.run();
    } catch (Failure&) {
        throw;
    } catch (std::exception&) {
        p.ex.reset();
    }
    simfs::fs().watcher = nullptr;
    simfs::fs().log = nullptr;
    simfs::fs().reset();
    return p.plains;
}

}  // namespace ppl
