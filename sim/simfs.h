// SimFS: the simulated kernel file layer. The harness executable defines fopen/fopen64/fclose/
// read/write/writev/close/fstat/rename itself (see simfs.cpp); calls made by libstdc++'s
// basic_filebuf and by the library's Writer<int> on paths under /sim/ or on descriptors handed out
// by SimFS end up here. Everything else is passed straight through to the kernel.
#pragma once
#include "common.h"
#include <memory>

namespace simfs {

struct Inode {
    std::string data;
    uint64_t id = 0;            // generation id (unique per created inode)
    int opens = 0;
    bool closed_once = false;   // has been closed after being written
    bool had_final_name = false;
    uint64_t writes_after_final = 0;  // bytes written after the inode got a final (non .part) name or was closed
};

enum class Ev { OPEN_W, OPEN_R, WRITE, CLOSE, RENAME, FSTAT, READ };

struct Event {
    Ev kind;
    std::string path;       // path of the open file ("fd:<handle>" for descriptor outputs)
    std::string path2;      // rename target
    uint64_t handle = 0;    // sim handle id
    size_t requested = 0;   // bytes requested (write/read)
    long result = 0;        // bytes transferred or -errno
    std::shared_ptr<Inode> inode;
};

// write-side fault: the k-th write/writev call (1-based) on destination `dest` misbehaves
struct WFault {
    enum Kind { ENOSPC_, EIO_, SHORT, EINTR_ } kind = EIO_;
    std::string dest;       // exact path as opened (e.g. "/sim/out0.part") or "fd:<name>"
    unsigned k = 1;         // which write call on that destination
    bool persist = false;   // every later call on that destination fails the same way
    unsigned short_pm = 500;  // SHORT: per-mille of the requested bytes that are accepted
    // state
    unsigned fired = 0;
};

// read-side behaviour of one opened file
struct RPolicy {
    size_t max_chunk = 0;       // 0 = deliver whatever is asked
    uint64_t seed = 0;          // chunk sizes are drawn from this
    unsigned eintr_pm = 0;      // per-mille of read calls that return EINTR first
    long eof_at = -1;           // deliver EOF at this offset (truncation)
    long eio_at = -1;           // read error at this offset
};

struct OpenFile {
    std::shared_ptr<Inode> inode;
    std::string path;
    uint64_t handle = 0;
    bool writing = false;
    bool is_stream = false;     // opened through fopen (FILE*), else raw descriptor
    size_t rpos = 0;
    unsigned wcalls = 0;        // write/writev calls seen
    RPolicy rp;
    sim::Rng rrng{0};
};

class FS {
public:
    std::map<std::string, std::shared_ptr<Inode>> dir;
    std::map<int, OpenFile> open_files;     // real fd number -> sim open file
    std::vector<WFault> wfaults;
    std::function<void(const Event&)> watcher;    // called after every event
    sim::EventLog* log = nullptr;
    sim::Counters* ctr = nullptr;
    uint64_t next_inode = 1, next_handle = 1;
    uint64_t n_events = 0;
    RPolicy default_rpolicy;        // applied to files opened for reading
    std::map<std::string, RPolicy> rpolicy_by_path;   // ... unless the path has its own
    unsigned fopen_fail_k = 0;      // the k-th fopen for writing fails (0 = never)
    unsigned fopen_w_calls = 0;
    std::set<std::string> unopenable;   // paths that cannot be opened for writing (occupied by a directory, no permission): persistent

    void reset();
    // harness-side helpers (no events generated)
    void put(const std::string& path, const std::string& data);
    bool exists(const std::string& path) const { return dir.count(path) != 0; }
    const std::string& get(const std::string& path) const;
    std::vector<std::string> list() const;
    // descriptor outputs: returns a real fd number mapped to a fresh inode registered as "fd:<name>"
    int make_fd(const std::string& name);
    std::shared_ptr<Inode> fd_inode(const std::string& name) const;
    bool any_open() const { return !open_files.empty(); }
    void close_all_leaked();        // force-close leftovers (after an exception in a run)
};

FS& fs();
bool is_sim_path(const char* p);

}  // namespace simfs
