// simcdns: worker executable of the deterministic simulator.
//   simcdns selfcheck
//   simcdns batch --engine E --prop P --tier T --base S --start A --count N --stride K --offset O [--hashes]
//   simcdns one   --engine E --prop P --tier T --seed X [--keep a,b,c | --keep none] [--describe] [--twice]
#include "engine.h"
#include "refcbor.h"
#include <sys/personality.h>
#include <sys/time.h>
#include <unistd.h>
#include <cstdlib>
#include <exception>

extern "C" {
__attribute__((used, visibility("default"))) const char* __asan_default_options() {
    return "exitcode=77:detect_leaks=0:abort_on_error=0:allocator_may_return_null=1:detect_stack_use_after_return=0:max_allocation_size_mb=4096";
}
#ifdef SIM_TSAN
__attribute__((used, visibility("default"))) const char* __ubsan_default_options() { return "halt_on_error=1:print_stacktrace=1"; }
#else
__attribute__((used, visibility("default"))) const char* __ubsan_default_options() { return "halt_on_error=1:exitcode=78:print_stacktrace=1"; }
#endif
__attribute__((used, visibility("default"))) const char* __tsan_default_options() { return "exitcode=66:halt_on_error=1:report_signal_unsafe=0:second_deadlock_stack=1"; }
}

using namespace sim;

namespace sim {
static const EngineDef ENGINES[] = {
#define ENGINE_DECL(n) {#n, engine_##n, ""},
    ENGINE_LIST
#undef ENGINE_DECL
    {nullptr, nullptr, nullptr}};
const EngineDef* find_engine(const std::string& name) {
    for (const EngineDef* e = ENGINES; e->name; e++) if (name == e->name) return e;
    return nullptr;
}
}  // namespace sim

static std::map<std::string, std::string> parse_args(int argc, char** argv, int from) {
    std::map<std::string, std::string> a;
    for (int i = from; i < argc; i++) {
        std::string k = argv[i];
        if (k.compare(0, 2, "--") != 0) continue;
        k = k.substr(2);
        if (i + 1 < argc && strncmp(argv[i + 1], "--", 2) != 0) a[k] = argv[++i];
        else a[k] = "1";
    }
    return a;
}

// Containment watchdog: a run may use `secs` seconds of CPU time (robust against a loaded machine) and 15x that of wall time
// (catches a run that blocks without consuming CPU). Either limit kills the worker; the driver reports crash/timeout.
static void arm_watchdog(unsigned secs) {
    struct itimerval it;
    memset(&it, 0, sizeof it);
    it.it_value.tv_sec = secs;
    setitimer(ITIMER_PROF, &it, nullptr);
    alarm(secs ? secs * 15 : 0);
}

static void on_terminate() {
    fprintf(stdout, "TERMINATE std::terminate called\n");
    fflush(stdout);
    _exit(79);
}

static void print_violations(uint64_t idx, const RunCtx& cx) {
    for (auto& v : cx.viol) {
        std::string tags;
        for (auto& t : cx.tags) { if (!tags.empty()) tags += ","; tags += t; }
        printf("V %llu %llu:%u %s %s\t%s\t%s\n", (unsigned long long)idx, (unsigned long long)cx.seed, cx.slot, v.prop.c_str(), v.sig.c_str(), tags.c_str(),
               json_escape(v.detail).c_str());
    }
}

int main(int argc, char** argv) {
    if (!getenv("SIMCDNS_NOASLR")) {
        setenv("SIMCDNS_NOASLR", "1", 1);
        if (personality(ADDR_NO_RANDOMIZE) != -1) execv("/proc/self/exe", argv);
    }
    std::set_terminate(on_terminate);
    setvbuf(stdout, nullptr, _IOLBF, 0);
    if (argc < 2) { fprintf(stderr, "usage: simcdns selfcheck|batch|one ...\n"); return 2; }
    std::string cmd = argv[1];
    auto a = parse_args(argc, argv, 2);
    try {
        if (cmd == "selfcheck") {
            ref::selfcheck();
            printf("SELFCHECK ok\n");
            return 0;
        }
        const EngineDef* eng = find_engine(a["engine"]);
        if (!eng) { fprintf(stderr, "unknown engine '%s'\n", a["engine"].c_str()); return 2; }
        Counters ctr;
        unsigned run_timeout = getenv("VERIF_RUN_TIMEOUT") ? (unsigned)atoi(getenv("VERIF_RUN_TIMEOUT")) : 60;
        if (cmd == "batch") {
            uint64_t base = strtoull(a["base"].c_str(), nullptr, 10);
            uint64_t start = strtoull(a["start"].c_str(), nullptr, 10), count = strtoull(a["count"].c_str(), nullptr, 10);
            uint64_t stride = a.count("stride") ? strtoull(a["stride"].c_str(), nullptr, 10) : 1, offset = strtoull(a["offset"].c_str(), nullptr, 10);
            bool hashes = a.count("hashes");
            uint64_t pbase = mix_str(mix_str(base, a["prop"].c_str()), a["engine"].c_str());
            unsigned slots = a.count("slots") ? (unsigned)strtoul(a["slots"].c_str(), nullptr, 10) : 1;
            std::set<uint64_t> distinct_hashes;
            std::set<std::string> distinct_states;
            uint64_t events = 0, runs = 0, samples = 0;
            for (uint64_t i = start; i < start + count; i++) {
                if (i % stride != offset) continue;
                RunCtx cx;
                cx.prop = a["prop"];
                cx.tier = a["tier"];
                cx.seed = mix64(pbase, i / slots);   // runs i*slots .. i*slots+slots-1 share one scenario
                cx.slot = (unsigned)(i % slots);
                cx.slots = slots;
                cx.ctr = &ctr;
                cx.describe = samples < 2;
                cx.log.reset(false);
                printf("B %llu %llu %u\n", (unsigned long long)i, (unsigned long long)cx.seed, cx.slot);
                arm_watchdog(run_timeout);   // containment only: a run that does not end is reported as crash/timeout by the driver
                eng->fn(cx);
                arm_watchdog(0);
                runs++;
                events += cx.log.count;
                distinct_hashes.insert(cx.log.hash);
                if (!cx.state_key.empty()) {
                    size_t p = 0;
                    while (p < cx.state_key.size()) {
                        size_t q = cx.state_key.find(',', p);
                        if (q == std::string::npos) q = cx.state_key.size();
                        distinct_states.insert(cx.state_key.substr(p, q - p));
                        p = q + 1;
                    }
                }
                if (cx.describe && !cx.description.empty()) { printf("SAMPLE %s\n", json_escape(cx.description).c_str()); samples++; }
                print_violations(i, cx);
                if (hashes) printf("E %llu %016llx %d\n", (unsigned long long)i, (unsigned long long)cx.log.hash, cx.nontrivial ? 1 : 0);
            }
            ctr.add("runs", runs);
            ctr.add("events", events);
            ctr.add("distinct_event_hashes", distinct_hashes.size());
            std::string st;
            for (auto& s : distinct_states) st += s + ",";
            printf("STATES %s\n", st.c_str());
            printf("STATS %s\n", ctr.json().c_str());
            return 0;
        }
        if (cmd == "one") {
            RunCtx cx;
            cx.prop = a["prop"];
            cx.tier = a["tier"];
            cx.seed = strtoull(a["seed"].c_str(), nullptr, 10);
            cx.slot = a.count("slot") ? (unsigned)strtoul(a["slot"].c_str(), nullptr, 10) : 0;
            cx.slots = a.count("slots") ? (unsigned)strtoul(a["slots"].c_str(), nullptr, 10) : 1;
            cx.ctr = &ctr;
            cx.describe = a.count("describe");
            if (a.count("keep")) {
                cx.has_keep = true;
                std::string k = a["keep"];
                if (k != "none") {
                    size_t p = 0;
                    while (p < k.size()) {
                        size_t q = k.find(',', p);
                        if (q == std::string::npos) q = k.size();
                        cx.keep.push_back((unsigned)strtoul(k.substr(p, q - p).c_str(), nullptr, 10));
                        p = q + 1;
                    }
                }
            }
            cx.log.reset(a.count("trace"));
            printf("B 0 %llu\n", (unsigned long long)cx.seed);
            arm_watchdog(run_timeout);
            eng->fn(cx);
            arm_watchdog(0);
            uint64_t h1 = cx.log.hash;
            if (a.count("twice")) {
                RunCtx c2;
                c2.prop = cx.prop; c2.tier = cx.tier; c2.seed = cx.seed; c2.slot = cx.slot; c2.slots = cx.slots; c2.ctr = &ctr; c2.has_keep = cx.has_keep; c2.keep = cx.keep;
                c2.log.reset(false);
                eng->fn(c2);
                if (c2.log.hash != h1) { printf("NONDETERMINISTIC %016llx %016llx\n", (unsigned long long)h1, (unsigned long long)c2.log.hash); return 3; }
            }
            printf("NOPS %u\n", cx.n_ops);
            printf("HASH %016llx\n", (unsigned long long)h1);
            if (cx.describe) printf("DESC %s\n", json_escape(cx.description).c_str());
            if (a.count("trace")) for (auto& l : cx.log.text) printf("T %s\n", json_escape(l).c_str());
            print_violations(0, cx);
            printf("DONE\n");
            return 0;
        }
        fprintf(stderr, "unknown command\n");
        return 2;
    } catch (Failure& f) {
        printf("HARNESS-FAILURE %s\n", f.what());
        return 4;
    }
}
