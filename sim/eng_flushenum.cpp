// Bounded exhaustive core for C12: ALL sequences of up to 6 calls over the alphabet
//   { buffer_qr(storable), buffer_qr(unstorable), buffer_aec(new key), buffer_aec(repeated key), buffer_mm,
//     write_block(), set_active_block_parameters(toggle), counter queries }
// for max_block_items in {0,1,2,3}, executed on the real CdnsExporter over an in-memory sink and compared call by call
// (flush iff a list reached the maximum, return value zero/non-zero, counters) and at the end through the written bytes
// (independent reader: every block non-empty, no array above the maximum, every storable record exactly once, in order)
// with the exporter model. One run = (max, 3-call prefix): it enumerates every continuation of length 0..3.
#include "engine.h"
#include "gen.h"
#include "model.h"
#include <memory>

struct FSinkRec { std::string data; };
struct FSink { std::shared_ptr<FSinkRec> rec; };
namespace CDNS {
template <>
class Writer<FSink> : public BaseCborOutputWriter {
public:
    Writer(const FSink& s, const std::string ext = "") : BaseCborOutputWriter(), m(s) { (void)ext; }
    void write(const char* p, std::size_t size) override { m.rec->data.append(p, size); }
    void rotate_output(const boost::any& value) override { if (value.type() == typeid(FSink)) m = boost::any_cast<FSink>(value); }
    FSink m;
};
}  // namespace CDNS

using namespace sim;

namespace {
enum { A_QR, A_QR_UNSTORABLE, A_AEC_NEW, A_AEC_REPEAT, A_MM, A_WRITE, A_SWITCH, A_COUNTERS, A_N };
const char* AN[] = {"qr", "qr-unstorable", "aec-new", "aec-repeat", "mm", "write_block", "switch-params", "counters"};

struct Enumerator {
    RunCtx& cx;
    uint64_t maxv;
    uint64_t sequences = 0;
    std::vector<CDNS::BlockParameters> sets;

    void V(const std::string& cls, const std::vector<int>& seq, const std::string& d) {
        std::string s;
        for (int a : seq) s += std::string(AN[a]) + " ";
        cx.violation("C12", "C12/" + cls, "max_block_items=" + std::to_string(maxv) + " sequence [" + s + "]: " + d);
    }

    void run_sequence(const std::vector<int>& seq) {
        sequences++;
        FSink sink;
        sink.rec = std::make_shared<FSinkRec>();
        model::Exporter M;
        M.params = sets;
        M.cur.set = 0;
        unsigned aec_keys = 0, recno = 0;
        {
            std::vector<CDNS::BlockParameters> s2 = sets;
            CDNS::FilePreamble fp(s2);
            CDNS::CdnsExporter ex(fp, sink, CDNS::CborOutputCompression::NO_COMPRESSION);
            for (size_t k = 0; k < seq.size(); k++) {
                size_t ret = 0;
                bool wrote = false;
                recno++;
                switch (seq[k]) {
                    case A_QR: {
                        CDNS::GenericQueryResponse g;
                        g.client_port = (uint16_t)(1000 + recno);
                        M.add_qr(g, nullptr);
                        ret = ex.buffer_qr(g);
                        wrote = M.maybe_flush();
                        break;
                    }
                    case A_QR_UNSTORABLE: {
                        CDNS::GenericQueryResponse g;
                        g.transaction_id = (uint16_t)recno;      // its hint bit is cleared in both sets
                        M.add_qr(g, nullptr);
                        ret = ex.buffer_qr(g);
                        wrote = M.maybe_flush();
                        break;
                    }
                    case A_AEC_NEW: case A_AEC_REPEAT: {
                        CDNS::GenericAddressEventCount a;
                        if (seq[k] == A_AEC_NEW || aec_keys == 0) aec_keys++;
                        a.ip_address = std::string(4, (char)aec_keys);
                        a.ae_type = CDNS::AddressEventTypeValues::tcp_reset;
                        a.ae_count = recno;   // (ignored on input: every call counts one event)
                        bool applies = M.add_aec(a, nullptr);
                        ret = ex.buffer_aec(a);
                        wrote = applies ? M.maybe_flush() : false;
                        break;
                    }
                    case A_MM: {
                        CDNS::GenericMalformedMessage m;
                        m.client_port = (uint16_t)(2000 + recno);
                        bool applies = M.add_mm(m, nullptr);
                        ret = ex.buffer_mm(m);
                        wrote = applies ? M.maybe_flush() : false;
                        break;
                    }
                    case A_WRITE: ret = ex.write_block(); wrote = M.write_block(); break;
                    case A_SWITCH: {
                        unsigned nx = 1 - M.active;
                        if (!ex.set_active_block_parameters(nx)) V("I08/set-active-refused", seq, "index " + std::to_string(nx));
                        M.active = nx;
                        break;
                    }
                    default: break;
                }
                if (wrote && ret == 0) V("I08/zero-return-although-block-written", seq, std::string("call ") + std::to_string(k) + " (" + AN[seq[k]] + ")");
                if (!wrote && ret != 0) V("I08/nonzero-return-without-block", seq, std::string("call ") + std::to_string(k) + " (" + AN[seq[k]] + ") returned " + std::to_string(ret));
                if (ex.get_block_qr_count() != M.cur.qr.size() || ex.get_block_aec_count() != M.cur.aec.size() || ex.get_block_mm_count() != M.cur.mm.size() ||
                    ex.get_block_item_count() != M.cur.items())
                    V("I08/item-counters", seq, std::string("after call ") + std::to_string(k) + " (" + AN[seq[k]] + "): exporter " + std::to_string(ex.get_block_qr_count()) + "/" + std::to_string(ex.get_block_aec_count()) + "/" +
                                                    std::to_string(ex.get_block_mm_count()) + ", model " + std::to_string(M.cur.qr.size()) + "/" + std::to_string(M.cur.aec.size()) + "/" + std::to_string(M.cur.mm.size()));
                if (ex.get_blocks_written_count() != M.blocks_written) V("I08/blocks-written-counter", seq, std::string("after call ") + std::to_string(k));
                if (ex.get_active_block_parameters() != M.active) V("I08/active-parameters", seq, std::string("after call ") + std::to_string(k));
            }
        }
        // through the bytes: what was flushed (pending records vanish with the exporter)
        const std::string& bytes = sink.rec->data;
        if (M.out.blocks.empty()) {
            if (!bytes.empty()) V("I09/bytes-without-block", seq, std::to_string(bytes.size()) + " bytes written although the model flushed no block");
            return;
        }
        try {
            ref::RFile rf = ref::Interp::file(bytes);
            if (rf.blocks.size() != M.out.blocks.size()) { V("I10/block-count", seq, "file has " + std::to_string(rf.blocks.size()) + " blocks, model " + std::to_string(M.out.blocks.size())); return; }
            for (size_t b = 0; b < rf.blocks.size(); b++) {
                const ref::RBlock& rb = rf.blocks[b];
                const model::MBlock& mb = M.out.blocks[b];
                uint64_t Mx = sets[mb.set].storage_parameters.max_block_items;
                if (Mx == 0) Mx = 1;
                if (rb.qr.size() + rb.aec.size() + rb.mm.size() == 0) V("I09/empty-block", seq, "block " + std::to_string(b));
                if (rb.qr.size() > Mx || rb.aec.size() > Mx || rb.mm.size() > Mx) V("I09/array-above-max", seq, "block " + std::to_string(b));
                if (rb.bp_index != mb.set) V("I10/block-parameters", seq, "block " + std::to_string(b) + " uses set " + std::to_string(rb.bp_index) + ", model " + std::to_string(mb.set));
                bool same = rb.qr.size() == mb.qr.size() && rb.mm.size() == mb.mm.size() && rb.aec.size() == mb.aec.size();
                for (size_t i = 0; same && i < rb.qr.size(); i++) same = rb.qr[i] == mb.qr[i];
                for (size_t i = 0; same && i < rb.mm.size(); i++) same = rb.mm[i] == mb.mm[i];
                std::map<std::string, uint64_t> got;
                for (auto& a : rb.aec) got[ref::dump(a.first)] += a.second;
                if (same) same = got == mb.aec;
                if (!same) V("I10/records-not-conserved", seq, "block " + std::to_string(b) + " does not hold exactly the records the model flushed, in order");
            }
        } catch (std::exception& e) {
            V("I09/output-invalid", seq, e.what());
        }
    }

    void extend(std::vector<int>& seq, unsigned more) {
        run_sequence(seq);
        if (!more) return;
        for (int a = 0; a < A_N; a++) {
            seq.push_back(a);
            extend(seq, more - 1);
            seq.pop_back();
        }
    }
};
}  // namespace

void sim::engine_flushenum(RunCtx& cx) {
    // slot -> (max, prefix). 4 * 512 prefix runs + 1 run for the sequences shorter than 3 calls
    unsigned slot = cx.slot % 2049;
    Enumerator E{cx, 0, 0, {}};
    CDNS::BlockParameters bp;
    bp.storage_parameters.storage_hints.query_response_hints &= ~(uint32_t)CDNS::QueryResponseHintsMask::transaction_id;
    std::vector<int> seq;
    unsigned depth;
    if (slot == 2048) {
        depth = 2;   // sequences of length 0..2, for every max
    } else {
        E.maxv = slot / 512;
        unsigned p = slot % 512;
        seq = {(int)(p / 64), (int)(p / 8 % 8), (int)(p % 8)};
        depth = cx.tier == "thorough" ? 3 : 2;   // total length up to 6 (thorough) / 5 (quick)
    }
    cx.n_ops = 0;
    auto one_max = [&](uint64_t mx) {
        E.maxv = mx;
        bp.storage_parameters.max_block_items = mx;
        CDNS::BlockParameters other = bp;
        other.storage_parameters.max_block_items = (mx + 1) % 4;
        E.sets = {bp, other};
        E.extend(seq, depth);
    };
    if (slot == 2048) for (uint64_t mx = 0; mx < 4; mx++) one_max(mx);
    else one_max(E.maxv);
    cx.log.ev("ENUM slot " + std::to_string(slot) + " sequences " + std::to_string(E.sequences) + " violations " + std::to_string(cx.viol.size()));
    cx.ctr->add("sequences_enumerated", E.sequences);
    cx.ctr->add("probe.max_block_items_" + std::to_string(E.maxv));
    if (cx.describe) {
        cx.description = "max_block_items=" + std::to_string(E.maxv) + " prefix [";
        for (int a : seq) cx.description += std::string(AN[a]) + " ";
        cx.description += "] + every continuation of length 0.." + std::to_string(depth);
    }
    cx.nontrivial = true;
    cx.state_key = "slot" + std::to_string(slot) + ",";
}
