// RefCBOR: an independent, strict RFC 8949 decoder to a tree (with byte offsets of every item)
// and an encoder that can emit any legal form of a tree under a seeded encoding policy.
// Shares no code with /repo/src.
#pragma once
#include "common.h"

namespace ref {

struct Malformed : std::runtime_error {
    size_t off;
    Malformed(const std::string& m, size_t o) : std::runtime_error(m + " at offset " + std::to_string(o)), off(o) {}
};

struct Node {
    uint8_t major = 0;      // 0..7
    uint8_t ai = 0;         // additional information as found in (or chosen for) the head
    uint64_t arg = 0;       // uint value | n of negative (-1-n) | string length | count | tag | simple/float bits
    bool indef = false;     // indefinite-length string / array / map
    std::string bytes;      // major 2/3: the (concatenated) content
    std::vector<size_t> chunks;  // indefinite strings: chunk lengths as decoded / to be encoded
    std::vector<Node> kids; // array: items; map: k0,v0,k1,v1,...; tag: the one content item
    size_t off = 0, end = 0;     // [off,end) in the decoded buffer

    bool is_uint() const { return major == 0; }
    bool is_nint() const { return major == 1; }
    bool is_int() const { return major <= 1; }
    bool is_bytes() const { return major == 2; }
    bool is_text() const { return major == 3; }
    bool is_array() const { return major == 4; }
    bool is_map() const { return major == 5; }
    bool is_tag() const { return major == 6; }
    bool is_bool() const { return major == 7 && (ai == 20 || ai == 21); }
    size_t map_pairs() const { return kids.size() / 2; }
    // integer as __int128 so that the whole CBOR range is representable
    __int128 ival() const { return major == 0 ? (__int128)arg : -1 - (__int128)arg; }

    static Node uint_(uint64_t v) { Node n; n.major = 0; n.arg = v; return n; }
    static Node nint_(uint64_t v) { Node n; n.major = 1; n.arg = v; return n; }  // value -1-v
    static Node int_(__int128 v) { return v >= 0 ? uint_((uint64_t)v) : nint_((uint64_t)(-1 - v)); }
    static Node bytes_(const std::string& s) { Node n; n.major = 2; n.bytes = s; n.arg = s.size(); return n; }
    static Node text_(const std::string& s) { Node n; n.major = 3; n.bytes = s; n.arg = s.size(); return n; }
    static Node array_() { Node n; n.major = 4; return n; }
    static Node map_() { Node n; n.major = 5; return n; }
    static Node tag_(uint64_t t, const Node& c) { Node n; n.major = 6; n.arg = t; n.kids.push_back(c); return n; }
    static Node simple_(uint8_t v) { Node n; n.major = 7; n.ai = v < 24 ? v : 24; n.arg = v; return n; }
    static Node bool_(bool b) { return simple_(b ? 21 : 20); }
    static Node float_(int width_ai, uint64_t bits) { Node n; n.major = 7; n.ai = (uint8_t)width_ai; n.arg = bits; return n; }
    Node& push(const Node& k) { kids.push_back(k); return *this; }
    Node& put(const Node& k, const Node& v) { kids.push_back(k); kids.push_back(v); return *this; }
    Node& put(int64_t k, const Node& v) { return put(int_(k), v); }
};

// -------------------------------------------------------------------------------------------
class Decoder {
public:
    explicit Decoder(const std::string& b, unsigned max_depth = 2000) : buf(b), maxd(max_depth) {}

    // exactly one data item, no trailing bytes
    Node parse_all() {
        size_t pos = 0;
        Node n = item(pos, 0);
        if (pos != buf.size()) throw Malformed("trailing bytes after the data item", pos);
        return n;
    }
    Node parse_one(size_t& pos) { return item(pos, 0); }

private:
    const std::string& buf;
    unsigned maxd;

    uint8_t byte(size_t pos) const {
        if (pos >= buf.size()) throw Malformed("unexpected end of input", pos);
        return (uint8_t)buf[pos];
    }
    uint64_t arg(uint8_t ai, size_t& pos) const {
        if (ai < 24) return ai;
        int n = 1 << (ai - 24);
        if (pos + n > buf.size()) throw Malformed("unexpected end of input in head", buf.size());
        uint64_t v = 0;
        for (int i = 0; i < n; i++) v = (v << 8) | (uint8_t)buf[pos++];
        return v;
    }
    Node item(size_t& pos, unsigned depth) {
        if (depth > maxd) throw Malformed("nesting deeper than the reference decoder's limit", pos);
        Node n;
        n.off = pos;
        uint8_t ib = byte(pos++);
        n.major = ib >> 5;
        n.ai = ib & 31;
        if (n.ai >= 28 && n.ai <= 30) throw Malformed("reserved additional information", n.off);
        if (n.ai == 31) {
            switch (n.major) {
                case 0: case 1: case 6: throw Malformed("indefinite length on integer/tag", n.off);
                case 7: throw Malformed("break outside indefinite-length item", n.off);
                default: n.indef = true;
            }
        } else {
            n.arg = arg(n.ai, pos);
        }
        switch (n.major) {
            case 0: case 1: break;
            case 2: case 3:
                if (!n.indef) {
                    if (n.arg > buf.size() - pos) throw Malformed("string longer than input", n.off);
                    n.bytes.assign(buf, pos, n.arg);
                    pos += n.arg;
                } else {
                    for (;;) {
                        uint8_t cb = byte(pos);
                        if (cb == 0xff) { pos++; break; }
                        if ((cb >> 5) != n.major) throw Malformed("chunk of wrong major type", pos);
                        uint8_t cai = cb & 31;
                        if (cai >= 28) throw Malformed("bad chunk head", pos);
                        size_t p0 = pos;
                        pos++;
                        uint64_t len = arg(cai, pos);
                        if (len > buf.size() - pos) throw Malformed("chunk longer than input", p0);
                        n.bytes.append(buf, pos, len);
                        n.chunks.push_back(len);
                        pos += len;
                    }
                    n.arg = n.bytes.size();
                }
                break;
            case 4: case 5: {
                uint64_t per = n.major == 5 ? 2 : 1;
                if (!n.indef) {
                    if (n.arg > (buf.size() - pos) / per) throw Malformed("declared count exceeds input", n.off);
                    for (uint64_t i = 0; i < n.arg * per; i++) n.kids.push_back(item(pos, depth + 1));
                } else {
                    for (;;) {
                        if (byte(pos) == 0xff) {
                            if (n.major == 5 && (n.kids.size() & 1)) throw Malformed("break between map key and value", pos);
                            pos++;
                            break;
                        }
                        n.kids.push_back(item(pos, depth + 1));
                    }
                    n.arg = n.kids.size() / per;
                }
                break;
            }
            case 6: n.kids.push_back(item(pos, depth + 1)); break;
            case 7:
                if (n.ai == 24 && n.arg < 32) throw Malformed("two-byte simple value below 32", n.off);
                break;
        }
        n.end = pos;
        return n;
    }
};

// -------------------------------------------------------------------------------------------
inline void put_head(std::string& out, uint8_t major, uint64_t v, int min_ai = 0) {
    // min_ai: 0 = preferred; 24..27 = force at least that width
    int ai;
    if (v < 24 && min_ai < 24) ai = (int)v;
    else if (v <= 0xff && min_ai <= 24) ai = 24;
    else if (v <= 0xffff && min_ai <= 25) ai = 25;
    else if (v <= 0xffffffffULL && min_ai <= 26) ai = 26;
    else ai = 27;
    out.push_back((char)(major << 5 | ai));
    if (ai >= 24) {
        int n = 1 << (ai - 24);
        for (int i = n - 1; i >= 0; i--) out.push_back((char)(v >> (8 * i)));
    }
}

// Preferred (shortest, definite) encoding of a tree: what RFC 8949 §4.1 calls preferred serialization
inline void encode_preferred(const Node& n, std::string& out) {
    switch (n.major) {
        case 0: case 1: put_head(out, n.major, n.arg); break;
        case 2: case 3: put_head(out, n.major, n.bytes.size()); out += n.bytes; break;
        case 4: put_head(out, 4, n.kids.size()); for (auto& k : n.kids) encode_preferred(k, out); break;
        case 5: put_head(out, 5, n.kids.size() / 2); for (auto& k : n.kids) encode_preferred(k, out); break;
        case 6: put_head(out, 6, n.arg); encode_preferred(n.kids.at(0), out); break;
        case 7:
            if (n.ai >= 25 && n.ai <= 27) {  // floats keep their width
                out.push_back((char)(0xe0 | n.ai));
                int w = 1 << (n.ai - 24);
                for (int i = w - 1; i >= 0; i--) out.push_back((char)(n.arg >> (8 * i)));
            } else if (n.arg < 24) out.push_back((char)(0xe0 | n.arg));
            else { out.push_back((char)0xf8); out.push_back((char)n.arg); }
            break;
    }
}
inline std::string encode_preferred(const Node& n) { std::string s; encode_preferred(n, s); return s; }

// Encoding policy for "a foreign producer": every decision is drawn from the given Rng.
struct Policy {
    sim::Rng rng{0};
    unsigned widen = 0;     // per mille: use a wider-than-needed head
    unsigned indef = 0;     // per mille: containers / strings become indefinite-length
    unsigned permute = 0;   // per mille: shuffle the members of a map
    unsigned unknown = 0;   // per mille: insert a member with an unknown key into a map
    unsigned tagwrap = 0;   // per mille: (only for unknown values) wrap in a tag
    // counters for the evidence
    uint64_t n_widen = 0, n_indef = 0, n_chunked = 0, n_permute = 0, n_unknown = 0, n_zero_chunk = 0;
    bool hit(unsigned pm) { return pm && rng.below(1000) < pm; }
};

Node random_value(sim::Rng& rng, int depth);  // any well-formed value (for unknown members)

inline int pick_min_ai(Policy& p, uint64_t v) {
    if (!p.hit(p.widen)) return 0;
    int need = v < 24 ? 0 : v <= 0xff ? 24 : v <= 0xffff ? 25 : v <= 0xffffffffULL ? 26 : 27;
    int lo = need < 24 ? 24 : need + 1;
    if (lo > 27) return 0;
    p.n_widen++;
    return (int)p.rng.range(lo, 27);
}

inline void encode_policy(const Node& n, Policy& p, std::string& out, bool allow_unknown = true);

inline void encode_string_policy(const Node& n, Policy& p, std::string& out) {
    if (p.hit(p.indef)) {
        p.n_indef++;
        out.push_back((char)(n.major << 5 | 31));
        size_t pos = 0, len = n.bytes.size();
        unsigned nch = (unsigned)p.rng.range(0, 4);
        while (pos < len || nch > 0) {
            size_t take = 0;
            if (pos < len) {
                take = nch <= 1 ? len - pos : (size_t)p.rng.range(0, len - pos);
                if (n.major == 3) {  // text: only cut on code-point boundaries
                    while (pos + take < len && ((unsigned char)n.bytes[pos + take] & 0xC0) == 0x80) take++;
                }
            }
            if (take == 0) p.n_zero_chunk++;
            put_head(out, n.major, take, pick_min_ai(p, take));
            out.append(n.bytes, pos, take);
            pos += take;
            p.n_chunked++;
            if (nch > 0) nch--;
            if (nch == 0 && pos < len) nch = 1;
        }
        out.push_back((char)0xff);
    } else {
        put_head(out, n.major, n.bytes.size(), pick_min_ai(p, n.bytes.size()));
        out += n.bytes;
    }
}

inline void encode_policy(const Node& n, Policy& p, std::string& out, bool allow_unknown) {
    switch (n.major) {
        case 0: case 1: put_head(out, n.major, n.arg, pick_min_ai(p, n.arg)); break;
        case 2: case 3: encode_string_policy(n, p, out); break;
        case 4: {
            bool ind = p.hit(p.indef);
            if (ind) { p.n_indef++; out.push_back((char)0x9f); }
            else put_head(out, 4, n.kids.size(), pick_min_ai(p, n.kids.size()));
            for (auto& k : n.kids) encode_policy(k, p, out, allow_unknown);
            if (ind) out.push_back((char)0xff);
            break;
        }
        case 5: {
            // members, possibly permuted and with unknown members mixed in
            std::vector<std::pair<const Node*, const Node*>> mem;
            for (size_t i = 0; i + 1 < n.kids.size(); i += 2) mem.push_back({&n.kids[i], &n.kids[i + 1]});
            std::vector<Node> extra_store;
            extra_store.reserve(8);
            if (allow_unknown) {
                while (extra_store.size() < 6 && p.hit(p.unknown)) {
                    // unknown integer key, far away from every key RFC 8618 / this library assigns; one in four comes
                    // from the far ends of what CBOR can express (unsigned up to 2^64-1, negative down to -2^64), where
                    // a reader that narrows the key to 64 signed bits would mistake it for a small, known key
                    Node keyn;
                    unsigned sel = (unsigned)p.rng.below(8);
                    if (sel == 0) keyn = Node::uint_(0xffffffffffffffffULL - p.rng.below(40));
                    else if (sel == 1) keyn = Node::nint_(0xffffffffffffffffULL - p.rng.below(40));
                    else {
                        int64_t key = p.rng.coin() ? (int64_t)p.rng.range(40, 100000) : -(int64_t)p.rng.range(40, 100000);
                        keyn = Node::int_(key);
                    }
                    bool dup = false;
                    for (size_t i = 0; i < extra_store.size(); i += 2) if (extra_store[i].major == keyn.major && extra_store[i].arg == keyn.arg) dup = true;
                    if (dup) break;
                    extra_store.push_back(keyn);
                    extra_store.push_back(random_value(p.rng, 0));
                    p.n_unknown++;
                }
                for (size_t i = 0; i + 1 < extra_store.size(); i += 2) mem.push_back({&extra_store[i], &extra_store[i + 1]});
            }
            if (p.hit(p.permute) || !extra_store.empty()) {
                if (mem.size() > 1) p.n_permute++;
                for (size_t i = mem.size(); i > 1; i--) std::swap(mem[i - 1], mem[p.rng.below(i)]);
            }
            bool ind = p.hit(p.indef);
            if (ind) { p.n_indef++; out.push_back((char)0xbf); }
            else put_head(out, 5, mem.size(), pick_min_ai(p, mem.size()));
            for (auto& m : mem) {
                encode_policy(*m.first, p, out, false);
                // values of unknown members are encoded without further unknown insertion (they are
                // arbitrary values already)
                bool is_extra = false;
                for (auto& e : extra_store) if (&e == m.second) is_extra = true;
                encode_policy(*m.second, p, out, allow_unknown && !is_extra);
            }
            if (ind) out.push_back((char)0xff);
            break;
        }
        case 6: put_head(out, 6, n.arg, pick_min_ai(p, n.arg)); encode_policy(n.kids.at(0), p, out, allow_unknown); break;
        case 7: encode_preferred(n, out); break;
    }
}

// Any well-formed CBOR value from the whole grammar (unknown-member values, C07 items)
inline Node random_value(sim::Rng& rng, int depth) {
    static const uint64_t edge[] = {0, 1, 23, 24, 255, 256, 65535, 65536, 0xffffffffULL, 0x100000000ULL,
                                    0x7fffffffffffffffULL, 0x8000000000000000ULL, 0xffffffffffffffffULL};
    unsigned k = (unsigned)rng.below(depth >= 4 ? 8 : 12);
    switch (k) {
        case 0: return Node::uint_(rng.coin() ? rng.pick(edge) : rng.next() >> rng.below(64));
        case 1: return Node::nint_(rng.coin() ? rng.pick(edge) : rng.next() >> rng.below(64));
        case 2: case 3: {
            std::string s;
            size_t len = rng.chance(1, 8) ? rng.range(200, 600) : rng.below(30);
            for (size_t i = 0; i < len; i++) s.push_back(k == 2 ? (char)rng.below(256) : (char)rng.range(32, 126));
            return k == 2 ? Node::bytes_(s) : Node::text_(s);
        }
        case 4: return Node::bool_(rng.coin());
        case 5: {  // simple values: null, undefined, unassigned ones
            static const uint8_t sv[] = {22, 23, 0, 19, 32, 255, 100};
            return Node::simple_(rng.pick(sv));
        }
        case 6: {
            int w = (int)rng.range(25, 27);
            uint64_t bits = rng.next();
            if (w == 25) bits &= 0xffff; else if (w == 26) bits &= 0xffffffffULL;
            return Node::float_(w, bits);
        }
        case 7: return Node::tag_(rng.coin() ? rng.range(0, 40) : rng.pick(edge), random_value(rng, depth + 3));
        case 8: case 9: {
            Node a = Node::array_();
            size_t n = rng.below(5);
            for (size_t i = 0; i < n; i++) a.push(random_value(rng, depth + 1));
            return a;
        }
        case 10: {
            Node m = Node::map_();
            size_t n = rng.below(4);
            for (size_t i = 0; i < n; i++) m.put(random_value(rng, depth + 2), random_value(rng, depth + 1));
            return m;
        }
        default: return Node::tag_(rng.range(0, 300), Node::tag_(rng.range(0, 70000), random_value(rng, depth + 2)));
    }
}

// structural equality of values (ignoring encoding choices)
inline bool same_value(const Node& a, const Node& b) {
    if (a.major != b.major) return false;
    switch (a.major) {
        case 0: case 1: return a.arg == b.arg;
        case 2: case 3: return a.bytes == b.bytes;
        case 4: case 5:
            if (a.kids.size() != b.kids.size()) return false;
            for (size_t i = 0; i < a.kids.size(); i++) if (!same_value(a.kids[i], b.kids[i])) return false;
            return true;
        case 6: return a.arg == b.arg && same_value(a.kids[0], b.kids[0]);
        default: return a.arg == b.arg && ((a.ai >= 25 && a.ai <= 27) ? a.ai == b.ai : true);
    }
}

// RFC 8949 Appendix A vectors (a subset sufficient to pin the head logic) + identities. Throws on failure.
inline void selfcheck() {
    struct V { const char* hexs; int major; uint64_t arg; } v[] = {
        {"00", 0, 0}, {"17", 0, 23}, {"1818", 0, 24}, {"1864", 0, 100}, {"1903e8", 0, 1000},
        {"1a000f4240", 0, 1000000}, {"1b000000e8d4a51000", 0, 1000000000000ULL},
        {"1bffffffffffffffff", 0, 0xffffffffffffffffULL}, {"20", 1, 0}, {"3863", 1, 99}, {"3903e7", 1, 999},
        {"3bffffffffffffffff", 1, 0xffffffffffffffffULL}, {"f4", 7, 20}, {"f5", 7, 21}, {"f6", 7, 22}, {"f8ff", 7, 255},
    };
    for (auto& t : v) {
        std::string b = sim::unhex(t.hexs);
        Node n = Decoder(b).parse_all();
        if (n.major != t.major || n.arg != t.arg) throw sim::Failure(std::string("RefCBOR selfcheck decode ") + t.hexs);
        if (encode_preferred(n) != b) throw sim::Failure(std::string("RefCBOR selfcheck encode ") + t.hexs);
    }
    struct S { const char* hexs; const char* want; } s[] = {
        {"40", ""}, {"4401020304", "\x01\x02\x03\x04"}, {"6449455446", "IETF"}, {"5f42010243030405ff", "\x01\x02\x03\x04\x05"},
        {"7f657374726561646d696e67ff", "streaming"},
    };
    for (auto& t : s) {
        std::string b = sim::unhex(t.hexs);
        Node n = Decoder(b).parse_all();
        if (n.bytes != t.want) throw sim::Failure(std::string("RefCBOR selfcheck string ") + t.hexs);
    }
    const char* wf[] = {"80", "83010203", "8301820203820405", "9fff", "9f018202039f0405ffff", "83018202039f0405ff",
                        "a201020304", "bf61610161629f0203ffff", "c074323031332d30332d32315432303a30343a30305a",
                        "c1fb41d452d9ec200000", "f90000", "fa47c35000", "fb3ff199999999999a", "d74401020304"};
    for (auto h : wf) {
        std::string b = sim::unhex(h);
        Node n = Decoder(b).parse_all();
        sim::Rng r(7);
        for (int i = 0; i < 20; i++) {
            Policy p; p.rng = sim::Rng(r.next()); p.widen = 400; p.indef = 400; p.permute = 0; p.unknown = 0;
            std::string e; encode_policy(n, p, e);
            Node m = Decoder(e).parse_all();
            if (!same_value(n, m)) throw sim::Failure(std::string("RefCBOR selfcheck re-encode ") + h);
        }
    }
    const char* bad[] = {"", "18", "1c", "1f", "3f", "ff", "5f4101", "5f6161ff", "7f4161ff", "81", "a100", "bf00ff", "9f",
                         "f800", "f81f", "dc", "0000", "5b7fffffffffffffff00", "9b7fffffffffffffff"};
    for (auto h : bad) {
        std::string b = sim::unhex(h);
        bool threw = false;
        try { Decoder(b).parse_all(); } catch (Malformed&) { threw = true; }
        if (!threw) throw sim::Failure(std::string("RefCBOR selfcheck accepted malformed ") + h);
    }
}

}  // namespace ref
