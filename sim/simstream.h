// SimStream: the stream-layer seam. A std::streambuf handed to CdnsDecoder/CdnsReader as std::istream&
// that delivers the bytes of a buffer in seeded chunk sizes, ends at a chosen offset, or fails (throws from
// underflow, which std::istream turns into badbit) at a chosen offset.
#pragma once
#include "common.h"
#include <istream>
#include <streambuf>

namespace sim {

class SimStreamBuf : public std::streambuf {
public:
    SimStreamBuf(const std::string& data, size_t end_at, size_t max_chunk, uint64_t seed, long fail_at = -1)
        : d(data), end(end_at < data.size() ? end_at : data.size()), maxc(max_chunk), rng(seed), fail(fail_at) {}
    uint64_t refills = 0;

protected:
    int_type underflow() override {
        if (gptr() < egptr()) return traits_type::to_int_type(*gptr());
        if (fail >= 0 && pos >= (size_t)fail) throw std::ios_base::failure("simulated read error");
        if (pos >= end) return traits_type::eof();
        size_t n = end - pos;
        if (maxc) { size_t c = 1 + rng.below(maxc); if (c < n) n = c; }
        if (fail >= 0 && pos + n > (size_t)fail) n = (size_t)fail - pos;
        if (n == 0) throw std::ios_base::failure("simulated read error");
        char* b = const_cast<char*>(d.data()) + pos;
        setg(b, b, b + n);
        pos += n;
        refills++;
        return traits_type::to_int_type(*gptr());
    }

private:
    const std::string& d;
    size_t end, pos = 0, maxc;
    Rng rng;
    long fail;
};

}  // namespace sim
