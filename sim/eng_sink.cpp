// Sink engine: the real CdnsEncoder (and real compressors, where used) over Writer<SimSink>, the sink seam the
// library documents ("implement your own specializations"). Serves
//   C06: every write operation at every buffer fill level 0..2048 (slot = fill level, exhaustive core) + seeded call
//        sequences; sink bytes = concatenation of RFC 8949 preferred encodings, return values = their lengths
//   C10 (per-call clause): every encoder call and every X::write(enc) returns the number of bytes that reach the sink
#include "engine.h"
#include "gen.h"
#include "refcbor.h"
#include "model.h"
#include <memory>

struct SimSinkRec {
    std::string data;
    std::vector<size_t> calls;
};
struct SimSink {
    std::shared_ptr<SimSinkRec> rec;
};

namespace CDNS {
template <>
class Writer<SimSink> : public BaseCborOutputWriter {
public:
    Writer(const SimSink& s, const std::string ext = "") : BaseCborOutputWriter(), m(s) { (void)ext; }
    void write(const char* p, std::size_t size) override {
        m.rec->calls.push_back(size);
        m.rec->data.append(p, size);
    }
    void rotate_output(const boost::any& value) override {
        if (value.type() != typeid(SimSink)) return;
        m = boost::any_cast<SimSink>(value);
    }
    SimSink m;
};
}  // namespace CDNS

using namespace sim;

namespace {

SimSink new_sink() { SimSink s; s.rec = std::make_shared<SimSinkRec>(); return s; }

// bring a fresh encoder to buffer fill level L (0..2048); returns the bytes that were written to do so
std::string fill_to(CDNS::CdnsEncoder& enc, size_t L) {
    std::string expect;
    if (L == 0) return expect;
    // k one-byte items followed by one byte string whose head + content make up the rest
    for (size_t k = 0; k <= 3 && k <= L; k++) {
        size_t rest = L - k;
        if (rest == 0) { for (size_t j = 0; j < k; j++) { enc.write(true); expect.push_back((char)0xf5); } return expect; }
        for (size_t h = 1; h <= 3; h++) {
            if (rest < h) continue;
            size_t n = rest - h;
            size_t need = n < 24 ? 1 : n <= 0xff ? 2 : 3;
            if (need != h) continue;
            for (size_t j = 0; j < k; j++) { enc.write(true); expect.push_back((char)0xf5); }
            std::string str(n, 'p');
            enc.write_bytestring(str);
            ref::put_head(expect, 2, n);
            expect += str;
            return expect;
        }
    }
    throw Failure("fill_to: no shape for level " + std::to_string(L));
}

enum EOp { E_ARRAY, E_INDEF_ARRAY, E_MAP, E_INDEF_MAP, E_BYTES_PTR, E_BYTES_STR, E_TEXT_PTR, E_TEXT_STR, E_BREAK, E_BOOL, E_U8, E_U16, E_U32, E_U64,
           E_I8, E_I16, E_I32, E_I64, E_NOPS };
const char* EN[] = {"write_array_start", "write_indef_array_start", "write_map_start", "write_indef_map_start", "write_bytestring(ptr,size)",
                    "write_bytestring(string)", "write_textstring(ptr,size)", "write_textstring(string)", "write_break", "write(bool)", "write(uint8_t)",
                    "write(uint16_t)", "write(uint32_t)", "write(uint64_t)", "write(int8_t)", "write(int16_t)", "write(int32_t)", "write(int64_t)"};

struct Call {
    EOp op;
    uint64_t u = 0;     // unsigned argument / length / bool
    int64_t i = 0;      // signed argument
    std::string s;      // string argument
};

// executes the call on the encoder and returns the reference encoding
size_t do_call(CDNS::CdnsEncoder& enc, const Call& c, std::string& expect) {
    auto sint = [&](int64_t v) { if (v >= 0) ref::put_head(expect, 0, (uint64_t)v); else ref::put_head(expect, 1, (uint64_t)(-1 - (__int128)v)); };
    switch (c.op) {
        case E_ARRAY: ref::put_head(expect, 4, c.u); return enc.write_array_start((std::size_t)c.u);
        case E_INDEF_ARRAY: expect.push_back((char)0x9f); return enc.write_indef_array_start();
        case E_MAP: ref::put_head(expect, 5, c.u); return enc.write_map_start((std::size_t)c.u);
        case E_INDEF_MAP: expect.push_back((char)0xbf); return enc.write_indef_map_start();
        case E_BYTES_PTR: ref::put_head(expect, 2, c.s.size()); expect += c.s; return enc.write_bytestring(reinterpret_cast<const unsigned char*>(c.s.data()), c.s.size());
        case E_BYTES_STR: ref::put_head(expect, 2, c.s.size()); expect += c.s; return enc.write_bytestring(c.s);
        case E_TEXT_PTR: ref::put_head(expect, 3, c.s.size()); expect += c.s; return enc.write_textstring(reinterpret_cast<const unsigned char*>(c.s.data()), c.s.size());
        case E_TEXT_STR: ref::put_head(expect, 3, c.s.size()); expect += c.s; return enc.write_textstring(c.s);
        case E_BREAK: expect.push_back((char)0xff); return enc.write_break();
        case E_BOOL: expect.push_back(c.u ? (char)0xf5 : (char)0xf4); return enc.write((bool)c.u);
        case E_U8: ref::put_head(expect, 0, (uint8_t)c.u); return enc.write((uint8_t)c.u);
        case E_U16: ref::put_head(expect, 0, (uint16_t)c.u); return enc.write((uint16_t)c.u);
        case E_U32: ref::put_head(expect, 0, (uint32_t)c.u); return enc.write((uint32_t)c.u);
        case E_U64: ref::put_head(expect, 0, c.u); return enc.write((uint64_t)c.u);
        case E_I8: sint((int8_t)c.i); return enc.write((int8_t)c.i);
        case E_I16: sint((int16_t)c.i); return enc.write((int16_t)c.i);
        case E_I32: sint((int32_t)c.i); return enc.write((int32_t)c.i);
        default: sint(c.i); return enc.write((int64_t)c.i);
    }
}

std::string describe(const Call& c) {
    std::string s = EN[c.op];
    switch (c.op) {
        case E_BYTES_PTR: case E_BYTES_STR: case E_TEXT_PTR: case E_TEXT_STR: return s + " len=" + std::to_string(c.s.size());
        case E_I8: case E_I16: case E_I32: case E_I64: return s + " " + std::to_string(c.i);
        default: return s + " " + std::to_string(c.u);
    }
}

Call random_call(Rng& r) {
    Call c;
    c.op = (EOp)r.below(E_NOPS);
    c.u = r.coin() ? r.pick(gen::EDGE64) : gen::uint_bits(r, 64) >> r.below(64);
    c.i = gen::int64_any(r);
    if (r.coin()) c.i >>= r.below(60);
    if (c.op == E_BOOL) c.u &= 1;
    if (c.op >= E_BYTES_PTR && c.op <= E_TEXT_STR) {
        static const size_t lens[] = {0, 1, 23, 24, 255, 256, 2039, 2040, 2045, 2046, 2047, 2048, 2049, 4095, 4096, 4097, 6144};
        size_t len = r.coin() ? r.pick(lens) : r.below(7000);
        c.s.resize(len);
        for (auto& ch : c.s) ch = (char)r.below(256);
    }
    return c;
}

struct Checker {
    RunCtx& cx;
    void one(size_t level, const Call& c, int comp) {
        SimSink a = new_sink(), b = new_sink();
        std::string expect;
        size_t ret;
        {
            CDNS::CdnsEncoder enc(a, (CDNS::CborOutputCompression)comp);
            expect = fill_to(enc, level);
            size_t before = expect.size();
            ret = do_call(enc, c, expect);
            size_t want = expect.size() - before;
            if (ret != want) {
                cx.violation("C06", std::string("C06/I18/return-value/") + EN[c.op], describe(c) + " at fill level " + std::to_string(level) + " returned " + std::to_string(ret) + ", its encoding has " + std::to_string(want) + " bytes");
                cx.violation("C10", std::string("C10/I18/encoder-return-value/") + EN[c.op], describe(c) + " at fill level " + std::to_string(level) + " returned " + std::to_string(ret) + ", appended " + std::to_string(want));
            }
            enc.rotate_output(b);   // forces the flush
        }
        if (a.rec->data != expect) {
            size_t d = 0;
            while (d < expect.size() && d < a.rec->data.size() && expect[d] == a.rec->data[d]) d++;
            cx.violation("C06", std::string("C06/I19/sink-bytes/") + EN[c.op], describe(c) + " at fill level " + std::to_string(level) + ": sink holds " + std::to_string(a.rec->data.size()) + " bytes, expected " +
                                                                                     std::to_string(expect.size()) + "; first difference at byte " + std::to_string(d));
        }
        if (!b.rec->data.empty()) cx.violation("C06", "C06/I19/bytes-after-rotation", describe(c) + ": " + std::to_string(b.rec->data.size()) + " bytes reached the sink opened by rotate_output");
        cx.ctr->add("encoder_calls_checked");
        size_t avail = 2048 - level;
        if (c.op >= E_BYTES_PTR && c.op <= E_TEXT_STR) {
            if (c.s.size() > 2 * 2048) cx.ctr->add("probe.string_split_over_two_or_more_flushes");
            if (avail < 9) cx.ctr->add("probe.flush_before_string_head");
        } else if (avail < 9) cx.ctr->add("probe.call_with_less_than_9_bytes_free");
        if (avail == 0) cx.ctr->add("probe.call_with_full_buffer");
    }
};

}  // namespace

namespace {

// C10 per-call clause for the serialisable structures: ret == bytes that reach the sink, and those bytes are one CBOR item
template <class F> void check_struct(RunCtx& cx, const char* name, size_t level, F write_fn, bool may_be_empty_item = false) {
    SimSink a = new_sink(), b = new_sink();
    size_t prefix, ret;
    {
        CDNS::CdnsEncoder enc(a, CDNS::CborOutputCompression::NO_COMPRESSION);
        prefix = fill_to(enc, level).size();
        ret = write_fn(enc);
        enc.rotate_output(b);
    }
    size_t appended = a.rec->data.size() - prefix;
    cx.log.ev(std::string("STRUCT ") + name + " level=" + std::to_string(level) + " ret=" + std::to_string(ret) + " appended=" + std::to_string(appended));
    if (ret != appended)
        cx.violation("C10", std::string("C10/I18/serialisation-return-value/") + name, std::string(name) + "::write at fill level " + std::to_string(level) + " returned " + std::to_string(ret) +
                                                                                       " but " + std::to_string(appended) + " bytes reached the sink");
    std::string item = a.rec->data.substr(prefix);
    try {
        ref::Decoder(item).parse_all();
    } catch (ref::Malformed& e) {
        cx.violation("C02", std::string("C02/I02/serialisation-not-one-item/") + name, std::string(name) + "::write produced bytes that are not one well-formed CBOR item: " + e.what());
    }
    cx.ctr->add("structures_checked");
    cx.ctr->add(std::string("struct.") + name);
    (void)may_be_empty_item;
}

void engine_sink_structs(RunCtx& cx) {
    Rng r(mix_str(cx.seed, "structs"));
    gen::Swarm sw = gen::swarm(cx.seed, r.coin() ? gen::P_EMPTY : gen::P_GENERAL);
    gen::RecGen g(sw, r.next());
    static const size_t LV[] = {0, 1, 2030, 2039, 2040, 2044, 2046, 2047, 2048};
    auto level = [&] { return r.coin() ? r.pick(LV) : (size_t)r.below(2049); };
    auto on = [&] { return r.below(1000) < sw.density_pm; };
    unsigned n = 0;
    auto want = [&](unsigned idx) { cx.n_ops = idx + 1 > cx.n_ops ? idx + 1 : cx.n_ops; n = idx; return cx.kept(idx); };
    uint64_t tps = sw.sets[0].storage_parameters.ticks_per_second;
    if (want(0)) { CDNS::Timestamp t = g.ts(tps); check_struct(cx, "Timestamp", level(), [&](CDNS::CdnsEncoder& e) { return t.write(e); }); }
    if (want(1)) { CDNS::StorageHints h = sw.sets[0].storage_parameters.storage_hints; check_struct(cx, "StorageHints", level(), [&](CDNS::CdnsEncoder& e) { return h.write(e); }); }
    if (want(2)) { CDNS::BlockParameters bp = gen::block_parameters(r, true); check_struct(cx, "StorageParameters", level(), [&](CDNS::CdnsEncoder& e) { return bp.storage_parameters.write(e); }); }
    if (want(3)) {
        CDNS::BlockParameters bp = gen::block_parameters(r, true);
        CDNS::CollectionParameters cp = bp.collection_parameters ? *bp.collection_parameters : CDNS::CollectionParameters();
        check_struct(cx, "CollectionParameters", level(), [&](CDNS::CdnsEncoder& e) { return cp.write(e); });
    }
    if (want(4)) { CDNS::BlockParameters bp = gen::block_parameters(r, true); check_struct(cx, "BlockParameters", level(), [&](CDNS::CdnsEncoder& e) { return bp.write(e); }); }
    if (want(5)) {
        std::vector<CDNS::BlockParameters> v;
        size_t k = r.range(1, 4);
        for (size_t i = 0; i < k; i++) v.push_back(gen::block_parameters(r, r.coin()));
        CDNS::FilePreamble fp(v);
        if (r.coin()) fp.m_private_version = boost::none;
        check_struct(cx, "FilePreamble", level(), [&](CDNS::CdnsEncoder& e) { return fp.write(e); });
    }
    if (want(6)) { CDNS::ClassType c = g.ct(); check_struct(cx, "ClassType", level(), [&](CDNS::CdnsEncoder& e) { return c.write(e); }); }
    if (want(7)) {
        CDNS::QueryResponseSignature q;
        if (on()) q.server_address_index = (CDNS::index_t)gen::uint_bits(r, 32);
        if (on()) q.server_port = (uint16_t)gen::uint_bits(r, 16);
        if (on()) q.qr_transport_flags = (CDNS::QueryResponseTransportFlagsMask)gen::uint_bits(r, 8);
        if (on()) q.qr_type = (CDNS::QueryResponseTypeValues)gen::uint_bits(r, 8);
        if (on()) q.qr_sig_flags = (CDNS::QueryResponseFlagsMask)gen::uint_bits(r, 8);
        if (on()) q.query_opcode = (uint8_t)gen::uint_bits(r, 8);
        if (on()) q.qr_dns_flags = (CDNS::DNSFlagsMask)gen::uint_bits(r, 16);
        if (on()) q.query_rcode = (uint16_t)gen::uint_bits(r, 16);
        if (on()) q.query_classtype_index = (CDNS::index_t)gen::uint_bits(r, 32);
        if (on()) q.query_qdcount = (uint16_t)gen::uint_bits(r, 16);
        if (on()) q.query_ancount = (uint32_t)gen::uint_bits(r, 32);
        if (on()) q.query_nscount = (uint16_t)gen::uint_bits(r, 16);
        if (on()) q.query_arcount = (uint16_t)gen::uint_bits(r, 16);
        if (on()) q.query_edns_version = (uint8_t)gen::uint_bits(r, 8);
        if (on()) q.query_udp_size = (uint16_t)gen::uint_bits(r, 16);
        if (on()) q.query_opt_rdata_index = (CDNS::index_t)gen::uint_bits(r, 32);
        if (on()) q.response_rcode = (uint16_t)gen::uint_bits(r, 16);
        check_struct(cx, "QueryResponseSignature", level(), [&](CDNS::CdnsEncoder& e) { return q.write(e); });
    }
    if (want(8)) { CDNS::Question q; q.name_index = (CDNS::index_t)gen::uint_bits(r, 32); q.classtype_index = (CDNS::index_t)gen::uint_bits(r, 32); check_struct(cx, "Question", level(), [&](CDNS::CdnsEncoder& e) { return q.write(e); }); }
    if (want(9)) {
        CDNS::RR q; q.name_index = (CDNS::index_t)gen::uint_bits(r, 32); q.classtype_index = (CDNS::index_t)gen::uint_bits(r, 32);
        if (on()) q.ttl = (uint32_t)gen::uint_bits(r, 32);
        if (on()) q.rdata_index = (CDNS::index_t)gen::uint_bits(r, 32);
        check_struct(cx, "RR", level(), [&](CDNS::CdnsEncoder& e) { return q.write(e); });
    }
    if (want(10)) {
        CDNS::MalformedMessageData m;
        if (on()) m.server_address_index = (CDNS::index_t)gen::uint_bits(r, 32);
        if (on()) m.server_port = (uint16_t)gen::uint_bits(r, 16);
        if (on()) m.mm_transport_flags = (CDNS::QueryResponseTransportFlagsMask)gen::uint_bits(r, 8);
        if (on()) m.mm_payload = g.payload();
        check_struct(cx, "MalformedMessageData", level(), [&](CDNS::CdnsEncoder& e) { return m.write(e); });
    }
    if (want(11)) {
        CDNS::ResponseProcessingData p;
        if (on()) p.bailiwick_index = (CDNS::index_t)gen::uint_bits(r, 32);
        if (on()) p.processing_flags = (CDNS::ResponseProcessingFlagsMask)gen::uint_bits(r, 8);
        check_struct(cx, "ResponseProcessingData", level(), [&](CDNS::CdnsEncoder& e) { return p.write(e); });
    }
    if (want(12)) {
        CDNS::QueryResponseExtended x;
        if (on()) x.question_index = (CDNS::index_t)gen::uint_bits(r, 32);
        if (on()) x.answer_index = (CDNS::index_t)gen::uint_bits(r, 32);
        if (on()) x.authority_index = (CDNS::index_t)gen::uint_bits(r, 32);
        if (on()) x.additional_index = (CDNS::index_t)gen::uint_bits(r, 32);
        check_struct(cx, "QueryResponseExtended", level(), [&](CDNS::CdnsEncoder& e) { return x.write(e); });
    }
    if (want(13)) {
        CDNS::BlockPreamble b;
        b.earliest_time = g.ts(tps);
        if (on()) b.block_parameters_index = (CDNS::index_t)gen::uint_bits(r, 32);
        check_struct(cx, "BlockPreamble", level(), [&](CDNS::CdnsEncoder& e) { return b.write(e); });
    }
    if (want(14)) { CDNS::BlockStatistics b = g.stats((int)r.below(3)); check_struct(cx, "BlockStatistics", level(), [&](CDNS::CdnsEncoder& e) { return b.write(e); }); }
    if (want(15)) {
        CDNS::QueryResponse q;
        CDNS::Timestamp early(0, 0);
        if (on()) q.time_offset = g.ts(tps);
        if (on()) q.client_address_index = (CDNS::index_t)gen::uint_bits(r, 32);
        if (on()) q.client_port = (uint16_t)gen::uint_bits(r, 16);
        if (on()) q.transaction_id = (uint16_t)gen::uint_bits(r, 16);
        if (on()) q.qr_signature_index = (CDNS::index_t)gen::uint_bits(r, 32);
        if (on()) q.client_hoplimit = (uint8_t)gen::uint_bits(r, 8);
        if (on()) q.response_delay = gen::int64_any(r);
        if (on()) q.query_name_index = (CDNS::index_t)gen::uint_bits(r, 32);
        if (on()) q.query_size = (std::size_t)gen::uint_bits(r, 64);
        if (on()) q.response_size = (std::size_t)gen::uint_bits(r, 64);
        if (on()) { CDNS::ResponseProcessingData p; if (r.coin()) p.bailiwick_index = 3; q.response_processing_data = p; }
        if (on()) { CDNS::QueryResponseExtended x; if (r.coin()) x.answer_index = 7; q.query_extended = x; }
        if (on()) { CDNS::QueryResponseExtended x; if (r.coin()) x.question_index = 1; q.response_extended = x; }
        if (on()) q.asn = gen::utf8(r, r.below(6));
        if (on()) q.country_code = gen::utf8(r, r.below(3));
        if (on()) q.round_trip_time = gen::int64_any(r);
        check_struct(cx, "QueryResponse", level(), [&](CDNS::CdnsEncoder& e) { return q.write(e, early, tps); });
    }
    if (want(16)) {
        CDNS::AddressEventCount a;
        a.ae_type = (CDNS::AddressEventTypeValues)gen::uint_bits(r, 8);
        if (on()) a.ae_code = (uint8_t)gen::uint_bits(r, 8);
        a.ae_address_index = (CDNS::index_t)gen::uint_bits(r, 32);
        if (on()) a.ae_transport_flags = (CDNS::QueryResponseTransportFlagsMask)gen::uint_bits(r, 8);
        a.ae_count = gen::uint_bits(r, 64);
        check_struct(cx, "AddressEventCount", level(), [&](CDNS::CdnsEncoder& e) { return a.write(e); });
    }
    if (want(17)) {
        CDNS::MalformedMessage m;
        CDNS::Timestamp early(0, 0);
        if (on()) m.time_offset = g.ts(tps);
        if (on()) m.client_address_index = (CDNS::index_t)gen::uint_bits(r, 32);
        if (on()) m.client_port = (uint16_t)gen::uint_bits(r, 16);
        if (on()) m.message_data_index = (CDNS::index_t)gen::uint_bits(r, 32);
        check_struct(cx, "MalformedMessage", level(), [&](CDNS::CdnsEncoder& e) { return m.write(e, early, tps); });
    }
    if (want(18)) { CDNS::StringItem s; s.data = g.name(); check_struct(cx, "StringItem", level(), [&](CDNS::CdnsEncoder& e) { return s.write(e); }); }
    if (want(19)) {
        CDNS::IndexListItem l;
        size_t k = r.below(6);
        for (size_t i = 0; i < k; i++) l.list.push_back((CDNS::index_t)gen::uint_bits(r, 32));
        check_struct(cx, "IndexListItem", level(), [&](CDNS::CdnsEncoder& e) { return l.write(e); });
    }
    if (want(20)) {
        CDNS::BlockParameters bp = sw.sets[0];
        CDNS::CdnsBlock blk(bp, 0);
        size_t k = r.range(1, 6);
        for (size_t i = 0; i < k; i++) {
            switch (r.below(3)) {
                case 0: blk.add_question_response_record(g.qr(tps)); break;
                case 1: blk.add_address_event_count(g.aec()); break;
                default: blk.add_malformed_message(g.mm(tps)); break;
            }
        }
        if (r.coin()) blk.m_block_statistics = g.stats((int)r.below(3));
        check_struct(cx, "CdnsBlock", level(), [&](CDNS::CdnsEncoder& e) { return blk.write(e); });
    }
    cx.nontrivial = true;
    cx.state_key = "structs,";
    (void)n;
}

}  // namespace

void sim::engine_sink(RunCtx& cx) {
    if (cx.prop == "C10") { engine_sink_structs(cx); return; }
    Checker ck{cx};
    Rng r(mix_str(cx.seed, "sink"));
    // ---- part A: exhaustive core at fill level = slot ---------------------------------------------------
    cx.n_ops = 0;
    bool core = cx.slots >= 2049 && cx.slot <= 2048;   // slots 0..2048: the exhaustive core at that fill level; higher slots: seeded sequences
    if (core) {
        size_t L = cx.slot;
        std::vector<Call> calls;
        auto add = [&](EOp op, uint64_t u, int64_t i, size_t slen) {
            Call c; c.op = op; c.u = u; c.i = i;
            if (slen != (size_t)-1) { c.s.resize(slen); for (size_t k = 0; k < slen; k++) c.s[k] = (char)(k * 131 + L); }
            calls.push_back(c);
        };
        static const uint64_t lens[] = {0, 1, 23, 24, 255, 256, 65535, 65536, 0xffffffffULL, 0x100000000ULL, 0xffffffffffffffffULL};
        for (uint64_t v : lens) { add(E_ARRAY, v, 0, -1); add(E_MAP, v, 0, -1); add(E_U64, v, 0, -1); }
        add(E_U64, 0x7fffffffffffffffULL, 0, -1); add(E_U64, 0x8000000000000000ULL, 0, -1); add(E_U64, r.next(), 0, -1);
        add(E_INDEF_ARRAY, 0, 0, -1); add(E_INDEF_MAP, 0, 0, -1); add(E_BREAK, 0, 0, -1); add(E_BOOL, 0, 0, -1); add(E_BOOL, 1, 0, -1);
        // 8-bit overloads: every value is used (L mod 256 walks through all of them) and every width class at every level
        for (uint64_t v : {(uint64_t)(L & 255), (uint64_t)0, (uint64_t)23, (uint64_t)24, (uint64_t)255}) add(E_U8, v, 0, -1);
        for (int64_t v : {(int64_t)(int8_t)(L & 255), (int64_t)0, (int64_t)23, (int64_t)24, (int64_t)127, (int64_t)-1, (int64_t)-24, (int64_t)-25, (int64_t)-128}) add(E_I8, 0, v, -1);
        // 16-bit overloads: L + 2049*j, j = 0..31, enumerates every 16-bit value exactly once over all levels
        for (uint64_t j = 0; j < 32; j++) {
            uint64_t v = (L + 2049 * j) & 0xffff;
            add(E_U16, v, 0, -1);
            add(E_I16, 0, (int16_t)v, -1);
        }
        for (uint64_t v : {(uint64_t)23, (uint64_t)24, (uint64_t)255, (uint64_t)256, (uint64_t)65535}) add(E_U16, v, 0, -1);
        for (int64_t v : {(int64_t)-24, (int64_t)-25, (int64_t)-256, (int64_t)-257, (int64_t)-32768, (int64_t)32767}) add(E_I16, 0, v, -1);
        for (uint64_t v : {(uint64_t)0, (uint64_t)23, (uint64_t)24, (uint64_t)255, (uint64_t)256, (uint64_t)65535, (uint64_t)65536, (uint64_t)0xffffffffULL, (uint64_t)(r.next() & 0xffffffffULL)}) add(E_U32, v, 0, -1);
        for (int64_t v : {(int64_t)0, (int64_t)-1, (int64_t)-24, (int64_t)-25, (int64_t)-256, (int64_t)-257, (int64_t)-65536, (int64_t)-65537, (int64_t)INT32_MIN, (int64_t)INT32_MAX}) add(E_I32, 0, v, -1);
        for (int64_t v : {(int64_t)0, (int64_t)-1, (int64_t)-25, (int64_t)-257, (int64_t)-65537, (int64_t)-4294967296LL, (int64_t)-4294967297LL, INT64_MIN, INT64_MAX, (int64_t)r.next()}) add(E_I64, 0, v, -1);
        for (size_t sl : {(size_t)0, (size_t)1, (size_t)23, (size_t)24, (size_t)255, (size_t)256, (size_t)(2048 - L), (size_t)(2048 - L > 9 ? 2048 - L - 9 : 0), (size_t)2047, (size_t)2048, (size_t)2049, (size_t)4096,
                          (size_t)6144, (size_t)(r.below(6145))}) {
            EOp sop = (EOp)(E_BYTES_PTR + (sl + L) % 4);
            add(sop, 0, 0, sl);
        }
        cx.n_ops = (unsigned)calls.size();
        for (unsigned k = 0; k < calls.size(); k++) {
            if (!cx.kept(k)) continue;
            if (cx.describe) cx.description += "level " + std::to_string(L) + ": " + describe(calls[k]) + "; ";
            cx.log.ev("CORE " + std::to_string(L) + " " + describe(calls[k]));
            ck.one(L, calls[k], 0);
        }
        cx.ctr->add("probe.fill_levels_covered_exhaustively");
        cx.nontrivial = true;
        cx.state_key = "L" + std::to_string(L) + ",";
        return;
    }
    // ---- part B: a seeded call sequence on one encoder (any compression), checked as a whole --------------------
    {
        r = Rng(mix64(mix_str(cx.seed, "seq"), cx.slot));
        int comp = (int)r.below(3);
        size_t n = (size_t)r.range(1, cx.tier == "thorough" ? 200 : 60);
        SimSink a = new_sink(), b = new_sink();
        std::string expect;
        std::vector<Call> seq;
        for (size_t k = 0; k < n; k++) seq.push_back(random_call(r));
        cx.n_ops = (unsigned)n;
        bool replay_seq = cx.has_keep;
        {
            CDNS::CdnsEncoder enc(a, (CDNS::CborOutputCompression)comp);
            for (size_t k = 0; k < n; k++) {
                if (replay_seq && !cx.kept((unsigned)k)) continue;
                size_t before = expect.size();
                size_t ret = do_call(enc, seq[k], expect);
                cx.log.ev("SEQ " + describe(seq[k]));
                if (cx.describe) cx.description += describe(seq[k]) + "; ";
                if (ret != expect.size() - before) {
                    cx.violation("C06", std::string("C06/I18/return-value/") + EN[seq[k].op], "call " + std::to_string(k) + " " + describe(seq[k]) + " returned " + std::to_string(ret) + ", its encoding has " + std::to_string(expect.size() - before) + " bytes");
                    cx.violation("C10", std::string("C10/I18/encoder-return-value/") + EN[seq[k].op], "call " + std::to_string(k) + " " + describe(seq[k]) + " returned " + std::to_string(ret));
                }
            }
            enc.rotate_output(b);
        }
        std::string got = a.rec->data, err;
        if (comp == 1) { std::string raw = got; if (!model::gunzip_exact(raw, got, err)) got = "<undecodable gzip: " + err + ">"; }
        if (comp == 2) { std::string raw = got; if (!model::unxz_exact(raw, got, err)) got = "<undecodable xz: " + err + ">"; }
        if (got != expect) {
            size_t d = 0;
            while (d < expect.size() && d < got.size() && expect[d] == got[d]) d++;
            cx.violation("C06", "C06/I19/sink-bytes/sequence", "sequence of " + std::to_string(n) + " calls (compression " + std::to_string(comp) + "): sink holds " + std::to_string(got.size()) + " bytes, expected " +
                                                                   std::to_string(expect.size()) + "; first difference at byte " + std::to_string(d));
        }
        cx.ctr->add("encoder_sequences_checked");
        cx.ctr->add("encoder_calls_checked", n);
        cx.nontrivial = true;
        cx.state_key += "S" + std::to_string(comp) + ",";
    }
}
