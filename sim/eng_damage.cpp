// Damage engine (C03): valid files are stored on the simulated medium and damaged there (bit flips, overwritten /
// zeroed / garbage / duplicated sectors, truncation, structure-aware overwrites of length fields, indices, numeric
// members, names, nesting under unknown keys), delivered with short reads / EINTR / read errors, optionally with the
// k-th allocation failing; every read-side entry point then consumes the result: CdnsReader + read_generic_* + every
// string() renderer, raw decoder calls in seeded order, and the five tools' main() in-process.
// Monitors: ASan/UBSan (worker dies -> crash candidate), only std::exception-derived errors may surface, the tools must
// return, no allocation request of 1 GiB or more and none beyond max(256*|input|, 1 MiB), per-run watchdog.
#include <deque>
#include "pipeline.h"
#include "simstream.h"
#include "tools.h"
#include "alloc.h"
#include <fstream>

using namespace sim;

namespace {

struct DOp { unsigned kind; uint64_t seed; };
enum { D_FLIP, D_BYTE, D_SECTOR_ZERO, D_SECTOR_GARBAGE, D_SECTOR_DUP, D_TRUNC, D_UINT_EDGE, D_RETYPE, D_NAME, D_DEEP, D_HUGELEN, D_HUGECOUNT, D_ALL_GARBAGE, D_LEN_FIELD, D_TIME_FIELDS, D_INDEX_AT_SIZE, D_NKINDS };
const char* DN[] = {"bit-flip", "byte-overwrite", "sector-zeroed", "sector-garbage", "sector-duplicated", "truncation", "numeric-member-boundary", "major-type-changed",
                    "hostile-name", "deep-nesting-under-unknown-key", "huge-string-length", "huge-container-count", "all-sectors-garbage", "length-field-overwritten", "time-fields-at-boundaries", "index-at-table-size"};

void collect(ref::Node& n, std::vector<ref::Node*>& out) {
    out.push_back(&n);
    for (auto& k : n.kids) collect(k, out);
}

// insert `key: value_bytes` into the definite map whose head byte is at `off` (exporter maps have < 23 members)
bool splice_member(std::string& f, size_t off, const std::string& member) {
    uint8_t h = (uint8_t)f[off];
    if ((h >> 5) != 5 || (h & 31) >= 23) return false;
    f[off] = (char)(h + 1);
    f.insert(off + 1, member);
    return true;
}

std::string apply(const std::string& in, const DOp& op, std::string& note) {
    Rng r(op.seed);
    std::string f = in;
    if (f.empty() && op.kind != D_ALL_GARBAGE) return f;
    ref::Node root;
    bool parsed = false;
    auto parse = [&] { try { root = ref::Decoder(f).parse_all(); parsed = true; } catch (std::exception&) { parsed = false; } return parsed; };
    static const uint64_t EDGE[] = {0, 1, 23, 24, 255, 256, 65535, 65536, 0x7fffffffULL, 0xffffffffULL, 0x100000000ULL, 0x7fffffffffffffffULL, 0x8000000000000000ULL, 0xffffffffffffffffULL};
    switch (op.kind) {
        case D_FLIP: { size_t p = r.below(f.size()); f[p] ^= (char)(1 << r.below(8)); note = "flip@" + std::to_string(p); break; }
        case D_BYTE: { size_t p = r.below(f.size()); f[p] = (char)r.below(256); note = "byte@" + std::to_string(p); break; }
        case D_SECTOR_ZERO: case D_SECTOR_GARBAGE: case D_SECTOR_DUP: {
            size_t ss = r.coin() ? 512 : 64;
            size_t nsec = (f.size() + ss - 1) / ss, s = r.below(nsec);
            for (size_t i = s * ss; i < f.size() && i < (s + 1) * ss; i++)
                f[i] = op.kind == D_SECTOR_ZERO ? 0 : op.kind == D_SECTOR_GARBAGE ? (char)r.below(256) : (i >= ss ? f[i - ss] : f[i]);
            note = "sector " + std::to_string(s) + "/" + std::to_string(ss);
            break;
        }
        case D_TRUNC: { f.resize(r.below(f.size() + 1)); note = "to " + std::to_string(f.size()); break; }
        case D_ALL_GARBAGE: { size_t len = r.chance(1, 4) ? r.below(70000) : r.below(600); f = gen::bytes(r, len); note = std::to_string(len) + " bytes"; break; }
        case D_UINT_EDGE: case D_RETYPE: case D_NAME: {
            if (!parse()) break;
            std::vector<ref::Node*> nodes;
            collect(root, nodes);
            std::vector<ref::Node*> cand;
            for (auto* n : nodes) {
                if (op.kind == D_UINT_EDGE && n->is_uint()) cand.push_back(n);
                if (op.kind == D_RETYPE && n->major <= 3) cand.push_back(n);
                if (op.kind == D_NAME && n->is_bytes()) cand.push_back(n);
            }
            if (cand.empty()) break;
            ref::Node* v = cand[r.below(cand.size())];
            if (op.kind == D_UINT_EDGE) { v->arg = r.pick(EDGE); note = "uint@" + std::to_string(v->off) + "=" + std::to_string(v->arg); }
            else if (op.kind == D_RETYPE) {
                static const uint8_t tm[] = {0, 1, 2, 3};
                uint8_t nm = r.pick(tm);
                note = "major " + std::to_string(v->major) + "->" + std::to_string(nm) + "@" + std::to_string(v->off);
                if (nm <= 1) { v->arg = v->major <= 1 ? v->arg : v->bytes.size(); v->bytes.clear(); } else if (v->major <= 1) { v->bytes = std::string((size_t)(v->arg % 40), 'x'); }
                v->major = nm;
            } else {
                std::string nm;
                switch (r.below(6)) {
                    case 0: for (int i = 0; i < 12; i++) nm += "\x01" "a"; nm += "\x01"; break;              // last label runs past the end
                    case 1: nm = std::string("\x3f") + std::string(10, 'b'); break;                         // label longer than the name
                    case 2: nm = std::string(1, '\x01'); break;
                    case 3: for (int i = 0; i < 200; i++) nm += "\x02" "cd"; break;                          // > 255 labels' worth
                    case 4: nm = gen::bytes(r, r.below(300)); break;
                    default: nm = std::string(r.below(40), '\xff'); break;
                }
                v->bytes = nm;
                note = "name@" + std::to_string(v->off) + " " + hex(nm, 12);
            }
            f = ref::encode_preferred(root);
            break;
        }
        case D_TIME_FIELDS: {
            // all the numeric members the time arithmetic combines — ticks-per-second of every parameter set, earliest-time of every
            // block, time offsets of its records — are set to boundary values together (each with probability 1/2)
            if (!parse() || root.kids.size() != 3) break;
            static const uint64_t TE[] = {0, 1, 999999999ULL, 0x7fffffffULL, 0x80000000ULL, 0xffffffffULL, 0x100000000ULL, 0x4000000000000000ULL, 0x7fffffffffffffffULL, 0x8000000000000000ULL, 0xfffffffffffffffeULL, 0xffffffffffffffffULL};
            auto member = [](ref::Node& m, uint64_t key) -> ref::Node* {
                if (!m.is_map()) return nullptr;
                for (size_t i = 0; i + 1 < m.kids.size(); i += 2) if (m.kids[i].is_uint() && m.kids[i].arg == key) return &m.kids[i + 1];
                return nullptr;
            };
            unsigned changed = 0;
            // coherent variant (2 in 3): one tick rate for all sets and, per block, (seconds, ticks, offset) chosen so that the absolute
            // tick count seconds*rate + ticks + offset — what the reader computes, modulo 2^64 — is itself a boundary value
            static const uint64_t RATE[] = {1, 999999999ULL, 0x100000000ULL, 0x7fffffffffffffffULL, 0x8000000000000000ULL, 0xffffffffffffffffULL, 0};
            static const uint64_t TOTAL[] = {0, 1, 0x100000000ULL, 0x7fffffffffffffffULL, 0x8000000000000000ULL, 0xffffffffffffffffULL};
            const bool coherent = !r.chance(1, 3);
            const uint64_t rate = r.pick(RATE);
            auto set = [&](ref::Node* n, bool may_be_negative) {
                if (!n || n->major > 1 || !r.coin()) return;
                n->major = (may_be_negative && r.chance(1, 4)) ? 1 : 0;
                n->arg = r.pick(TE);
                changed++;
            };
            auto put = [&](ref::Node* n, uint64_t v) { if (n && n->major <= 1) { n->major = 0; n->arg = v; changed++; } };
            if (ref::Node* bps = member(root.kids[1], 3))
                for (auto& bp : bps->kids) if (ref::Node* sp = member(bp, 0)) { if (coherent) put(member(*sp, 0), rate); else set(member(*sp, 0), false); }
            for (auto& blk : root.kids[2].kids) {
                uint64_t total = r.pick(TOTAL), secs = r.coin() ? 0 : r.pick(TE), off = r.coin() ? 0 : r.pick(TE);
                uint64_t ticks = total - secs * rate - off;   // modulo 2^64
                if (ref::Node* pre = member(blk, 0))
                    if (ref::Node* e = member(*pre, 0)) {
                        if (coherent && e->kids.size() == 2) { put(&e->kids[0], secs); put(&e->kids[1], ticks); }
                        else for (auto& x : e->kids) set(&x, false);
                    }
                for (uint64_t arr : {3, 5})
                    if (ref::Node* items = member(blk, arr)) for (auto& it : items->kids) { if (coherent && r.coin()) put(member(it, 0), off); else set(member(it, 0), true); }
            }
            note = std::to_string(changed) + " members" + (coherent ? " (coherent, rate " + std::to_string(rate) + ")" : "");
            f = ref::encode_preferred(root);
            break;
        }
        case D_INDEX_AT_SIZE: {
            // off-by-one bounds: an index member is set to exactly the size of what it indexes (or size+1, size-1): the block's
            // block-parameters index against the preamble's array, item members against the block's tables
            if (!parse() || root.kids.size() != 3) break;
            auto member = [](ref::Node& m, uint64_t key) -> ref::Node* {
                if (!m.is_map()) return nullptr;
                for (size_t i = 0; i + 1 < m.kids.size(); i += 2) if (m.kids[i].is_uint() && m.kids[i].arg == key) return &m.kids[i + 1];
                return nullptr;
            };
            size_t nsets = 0;
            if (ref::Node* bps = member(root.kids[1], 3)) nsets = bps->kids.size();
            if (root.kids[2].kids.empty()) break;
            ref::Node& blk = root.kids[2].kids[r.below(root.kids[2].kids.size())];
            size_t tsize[9] = {0, 0, 0, 0, 0, 0, 0, 0, 0};
            ref::Node* tables = member(blk, 2);
            if (tables) for (uint64_t t = 0; t < 9; t++) if (ref::Node* tab = member(*tables, t)) tsize[t] = tab->kids.size();
            struct Cand { ref::Node* n; size_t size; const char* what; };
            std::vector<Cand> cand;
            if (ref::Node* pre = member(blk, 0)) {
                if (ref::Node* idx = member(*pre, 1)) cand.push_back({idx, nsets, "block-parameters-index"});
                else if (pre->is_map() && pre->kids.size() / 2 < 23 && r.coin()) {   // the optional index is absent: add it
                    pre->kids.push_back(ref::Node::uint_(1)); pre->kids.push_back(ref::Node::uint_(0));
                    cand.push_back({&pre->kids.back(), nsets, "block-parameters-index(added)"});
                }
            }
            if (ref::Node* qrs = member(blk, 3)) for (auto& q : qrs->kids) {
                if (ref::Node* x = member(q, 1)) cand.push_back({x, tsize[0], "qr client-address-index"});
                if (ref::Node* x = member(q, 4)) cand.push_back({x, tsize[3], "qr signature-index"});
                if (ref::Node* x = member(q, 7)) cand.push_back({x, tsize[2], "qr query-name-index"});
                for (uint64_t ek : {10, 11}) if (ref::Node* e = member(q, ek)) {
                    if (ref::Node* x = member(*e, 0)) cand.push_back({x, tsize[4], "question-list index"});
                    for (uint64_t k = 1; k <= 3; k++) if (ref::Node* x = member(*e, k)) cand.push_back({x, tsize[6], "rr-list index"});
                }
            }
            if (ref::Node* aecs = member(blk, 4)) for (auto& a : aecs->kids) if (ref::Node* x = member(a, 2)) cand.push_back({x, tsize[0], "aec address-index"});
            if (ref::Node* mms = member(blk, 5)) for (auto& m : mms->kids) {
                if (ref::Node* x = member(m, 1)) cand.push_back({x, tsize[0], "mm client-address-index"});
                if (ref::Node* x = member(m, 3)) cand.push_back({x, tsize[8], "mm message-data-index"});
            }
            if (tables) {
                if (ref::Node* sigs = member(*tables, 3)) for (auto& e : sigs->kids) { if (ref::Node* x = member(e, 0)) cand.push_back({x, tsize[0], "signature server-address-index"}); if (ref::Node* x = member(e, 9)) cand.push_back({x, tsize[1], "signature classtype-index"}); }
                if (ref::Node* ql = member(*tables, 4)) for (auto& l : ql->kids) for (auto& x : l.kids) cand.push_back({&x, tsize[5], "question index in a list"});
                if (ref::Node* qs = member(*tables, 5)) for (auto& e : qs->kids) { if (ref::Node* x = member(e, 0)) cand.push_back({x, tsize[2], "question name-index"}); if (ref::Node* x = member(e, 1)) cand.push_back({x, tsize[1], "question classtype-index"}); }
                if (ref::Node* rl = member(*tables, 6)) for (auto& l : rl->kids) for (auto& x : l.kids) cand.push_back({&x, tsize[7], "rr index in a list"});
                if (ref::Node* rs = member(*tables, 7)) for (auto& e : rs->kids) { if (ref::Node* x = member(e, 0)) cand.push_back({x, tsize[2], "rr name-index"}); if (ref::Node* x = member(e, 3)) cand.push_back({x, tsize[2], "rr rdata-index"}); }
            }
            if (cand.empty()) break;
            // the block-parameters index is one candidate among many: give it every third pick
            Cand c = (r.chance(1, 3) && cand[0].what[0] == 'b') ? cand[0] : cand[r.below(cand.size())];
            if (c.n->major > 1) break;
            c.n->major = 0;
            c.n->arg = r.chance(2, 3) ? c.size : (r.coin() ? c.size + 1 : (c.size ? c.size - 1 : 0));
            note = std::string(c.what) + " = " + std::to_string(c.n->arg) + " (size " + std::to_string(c.size) + ")";
            f = ref::encode_preferred(root);
            break;
        }
        case D_LEN_FIELD: {
            // overwrite the argument bytes of a multi-byte head in place (lengths, counts, integers alike)
            if (!parse()) break;
            std::vector<ref::Node*> nodes;
            collect(root, nodes);
            std::vector<ref::Node*> cand;
            for (auto* n : nodes) if (n->ai >= 24 && n->ai <= 27 && n->major != 7) cand.push_back(n);
            if (cand.empty()) break;
            ref::Node* v = cand[r.below(cand.size())];
            size_t w = (size_t)1 << (v->ai - 24);
            for (size_t i = 0; i < w; i++) f[v->off + 1 + i] = r.coin() ? (char)0xff : (char)r.below(256);
            note = "head@" + std::to_string(v->off) + " major " + std::to_string(v->major);
            break;
        }
        case D_DEEP: case D_HUGELEN: case D_HUGECOUNT: {
            if (!parse() || root.kids.size() != 3) break;
            // a map of the file: the preamble, a block, or a block's first item
            std::vector<size_t> maps;
            maps.push_back(root.kids[1].off);
            for (auto& b : root.kids[2].kids) { maps.push_back(b.off); for (auto& m : b.kids) if (m.is_map()) maps.push_back(m.off); }
            size_t off = maps[r.below(maps.size())];
            std::string member;
            member += (char)0x18; member += (char)(99 + r.below(100));   // unknown key
            if (op.kind == D_DEEP) {
                static const size_t depth[] = {100, 5000, 100000, 400000, 1000000};
                size_t d = r.pick(depth);
                unsigned shape = (unsigned)r.below(5);   // what the nesting is made of
                static const char* SH[] = {"indefinite arrays", "definite arrays", "tags", "maps (as values)", "mixed"};
                std::string close;
                for (size_t i = 0; i < d; i++) {
                    unsigned k = shape == 4 ? (unsigned)r.below(4) : shape;
                    switch (k) {
                        case 0: member += (char)0x9f; close += (char)0xff; break;
                        case 1: member += (char)0x81; break;
                        case 2: member += (char)(0xc0 + r.below(24)); break;
                        default: member += (char)0xa1; member += (char)0x00; break;
                    }
                }
                member += (char)0x00;
                member += std::string(close.rbegin(), close.rend());
                note = std::string(SH[shape]) + " nested " + std::to_string(d) + " deep in map@" + std::to_string(off);
            } else if (op.kind == D_HUGELEN) {
                uint64_t len = r.pick(std::vector<uint64_t>{0xffffffffffffffffULL, 0x8000000000000000ULL, 0x100000000ULL, 0xffffffffULL, 0x40000000ULL, 0x4000000ULL});
                uint8_t major = r.coin() ? 2 : 3;
                bool chunked = r.chance(1, 3);   // the huge length sits in the head of a chunk of an indefinite-length string
                if (chunked) member += (char)(major << 5 | 31);
                ref::put_head(member, major, len, 27);
                member += "abc";
                note = std::string(chunked ? "chunk" : "string") + " head with length " + std::to_string(len) + " in map@" + std::to_string(off);
            } else {
                uint64_t cnt = r.pick(std::vector<uint64_t>{0xffffffffffffffffULL, 0x100000000ULL, 0xffffffffULL, 0x1000000ULL});
                ref::put_head(member, r.coin() ? 4 : 5, cnt, 27);
                note = "container head with count " + std::to_string(cnt) + " in map@" + std::to_string(off);
            }
            if (!splice_member(f, off, member)) note += " (not spliced)";
            break;
        }
    }
    return f;
}

struct Monitors {
    RunCtx& cx;
    size_t input_size;
    std::string what;
    void begin(const char* w) { what = w; simalloc::reset(); simalloc::state().tracking = true; }
    void end(uint64_t fail_at_used) {
        simalloc::State st = simalloc::state();
        simalloc::state().tracking = false;
        size_t bound = std::max<size_t>(256 * input_size, (size_t)1 << 20);
        if (st.refused) cx.violation("C03", "C03/I26/allocation-sized-by-length-field/" + what, what + ": a single allocation of " + std::to_string(st.refused_size) + " bytes was requested for an input of " + std::to_string(input_size) + " bytes");
        else if (st.max_single > bound) cx.violation("C03", "C03/I26/allocation-out-of-proportion/" + what, what + ": largest single allocation " + std::to_string(st.max_single) + " bytes for an input of " + std::to_string(input_size) + " bytes");
        cx.ctr->max("max.single_allocation", st.max_single);
        if (fail_at_used && st.failed) cx.ctr->add("fault_fired.allocation_failure");
    }
};

__attribute__((noinline)) void dirty_stack(unsigned char b) {
    volatile unsigned char buf[192 * 1024];
    memset((void*)buf, b, sizeof buf);
}

uint64_t render_everything(CDNS::CdnsBlockRead& b) {
    std::string sink;
    sink += b.string();
    sink += b.m_block_preamble.string();
    if (b.m_block_statistics) sink += b.m_block_statistics->string();
    for (auto& q : b.m_query_responses) sink += q.string();
    for (auto& m : b.m_malformed_messages) sink += m.string();
    for (auto& a : b.m_address_event_counts) { CDNS::AddressEventCount c = a.first; sink += c.string(); }
    for (auto it = b.m_qr_sig.begin(); it != b.m_qr_sig.end(); ++it) sink += it->string();
    for (auto it = b.m_classtype.begin(); it != b.m_classtype.end(); ++it) sink += it->string();
    for (auto it = b.m_qrr.begin(); it != b.m_qrr.end(); ++it) sink += it->string();
    for (auto it = b.m_rr.begin(); it != b.m_rr.end(); ++it) sink += it->string();
    for (auto it = b.m_malformed_message_data.begin(); it != b.m_malformed_message_data.end(); ++it) sink += it->string();
    bool end = false;
    for (int guard = 0; guard < 1000000; guard++) { CDNS::GenericQueryResponse g = b.read_generic_qr(end); if (end) break; sink += g.string(); }
    for (int guard = 0; guard < 1000000; guard++) { CDNS::GenericAddressEventCount g = b.read_generic_aec(end); if (end) break; sink += g.string(); }
    for (int guard = 0; guard < 1000000; guard++) { CDNS::GenericMalformedMessage g = b.read_generic_mm(end); if (end) break; sink += g.string(); }
    return fnv1a(sink);
}

}  // namespace

void sim::engine_damage(RunCtx& cx) {
    Rng r(mix_str(cx.seed, "damage"));
    std::vector<std::string> files = ppl::produce_files(mix_str(cx.seed, "file"), r.chance(1, 6) ? "C14" : "C01");
    std::string base;
    if (!files.empty()) base = files[r.below(files.size())];
    // ---- damage plan ------------------------------------------------------------------------------------------
    unsigned nops = (unsigned)r.range(1, 4);
    std::vector<DOp> ops;
    for (unsigned i = 0; i < nops; i++) { DOp o; o.kind = (unsigned)r.below(D_NKINDS + 1); if (o.kind >= D_NKINDS) o.kind = D_TIME_FIELDS; o.seed = r.next(); ops.push_back(o); }
    cx.n_ops = nops;
    std::string f = base;
    std::string kinds;
    for (unsigned i = 0; i < nops; i++) {
        if (!cx.kept(i)) continue;
        std::string note;
        f = apply(f, ops[i], note);
        cx.tag(DN[ops[i].kind]);
        cx.ctr->add(std::string("fault_fired.") + DN[ops[i].kind]);
        cx.log.ev(std::string("DAMAGE ") + DN[ops[i].kind] + " " + note);
        if (cx.describe) cx.description += std::string(DN[ops[i].kind]) + " (" + note + "); ";
        kinds += std::string(DN[ops[i].kind]) + "+";
    }
    if (cx.describe) cx.description = "valid file of " + std::to_string(base.size()) + " bytes damaged to " + std::to_string(f.size()) + " bytes: " + cx.description;
    Monitors mon{cx, f.size(), ""};
    uint64_t fail_at = r.chance(1, 4) ? 1 + r.below(400) : 0;   // allocation fault: the k-th allocation of a consumer fails
    unsigned delivery = (unsigned)r.below(3);
    bool valid_after = false;
    try { ref::Interp::file(f); valid_after = true; cx.ctr->add("probe.damaged_file_still_valid"); } catch (std::exception&) {}
    std::set<std::string> outcomes;

    // ---- consumer A: CdnsReader + accessors + renderers over a SimStream ----------------------------------------------
    // Executed twice with different garbage in fresh heap memory and on the stack: the rendered text and the outcome must not
    // depend on it (stand-in for MemorySanitizer, which cannot be used with the uninstrumented libstdc++ of this sandbox).
    uint64_t text_hash[2] = {0, 0};
    const char* pass_outcome[2] = {"", ""};
    long stream_fail = r.chance(1, 10) ? (long)r.below(f.size() + 1) : -1;
    const unsigned hold = (unsigned)Rng(mix64(cx.seed, 3)).below(3);   // 0: use the returned block, 1: a kept copy, 2: a kept moved-to block
    cx.ctr->add(hold == 0 ? "probe.block_used_directly" : hold == 1 ? "probe.block_kept_by_copy" : "probe.block_kept_by_move");
    for (int pass = 0; pass < 2; pass++) {
        mon.begin("reader");
        simalloc::state().fill = true;
        simalloc::state().fill_byte = pass ? 0xA5 : 0x00;
        dirty_stack(pass ? 0xFF : 0x00);
        simalloc::state().fail_at = fail_at;
        const char* outcome = "clean";   // (no allocation in the handlers: the allocation fault may still be armed)
        uint64_t h = 1469598103934665603ULL;
        try {
            SimStreamBuf sb(f, f.size(), delivery == 0 ? 0 : delivery == 1 ? 7 : 4096, mix64(cx.seed, 1), stream_fail);
            std::istream is(&sb);
            CDNS::CdnsReader rd(is);
            std::string s = rd.m_file_preamble.string();
            h = fnv1a(s, h);
            // In two of three runs the application keeps the blocks (copy- or move-constructed into a container) and uses the
            // accessors on what it kept, after the object the reader returned is gone.
            std::deque<CDNS::CdnsBlockRead> held;   // (the copy constructor takes a non-const reference: emplace, no assignment)
            for (size_t nb = 0; nb < 200000; nb++) {
                bool eof = false;
                if (hold == 0) {
                    CDNS::CdnsBlockRead b = rd.read_block(eof);
                    if (eof) break;
                    uint64_t bh = render_everything(b);
                    h = fnv1a(&bh, sizeof bh, h);
                    continue;
                }
                {
                    CDNS::CdnsBlockRead b = rd.read_block(eof);
                    if (eof) break;
                    if (hold == 1) held.emplace_back(b); else held.emplace_back(std::move(b));
                }
                if (held.size() > 3) held.pop_front();
                uint64_t bh = render_everything(held.back());
                h = fnv1a(&bh, sizeof bh, h);
            }
        } catch (CDNS::CdnsDecoderEnd&) { simalloc::state().fail_at = 0; outcome = "CdnsDecoderEnd"; }
        catch (CDNS::CdnsDecoderException&) { simalloc::state().fail_at = 0; outcome = "CdnsDecoderException"; }
        catch (std::bad_alloc&) { simalloc::state().fail_at = 0; outcome = "bad_alloc"; }
        catch (std::exception&) { simalloc::state().fail_at = 0; outcome = "std::exception"; }
        catch (...) { simalloc::state().fail_at = 0; outcome = "non-std"; cx.violation("C03", "C03/I26/non-std-exception/reader", "something not derived from std::exception was thrown"); }
        simalloc::state().fail_at = 0;
        simalloc::state().fill = false;
        mon.end(fail_at);
        text_hash[pass] = h;
        pass_outcome[pass] = outcome;
        if (pass == 0) {
            outcomes.insert(std::string("A:") + outcome);
            cx.ctr->add(std::string("outcome.reader.") + outcome);
        }
    }
    if (text_hash[0] != text_hash[1] || std::string(pass_outcome[0]) != pass_outcome[1])
        cx.violation("C03", "C03/I26/result-depends-on-uninitialised-memory", std::string("reading + rendering the same image twice, with fresh heap memory and the stack pre-filled with different bytes, gave different ") +
                                                                                 (std::string(pass_outcome[0]) != pass_outcome[1] ? "outcomes (" + std::string(pass_outcome[0]) + " vs " + pass_outcome[1] + ")" : std::string("rendered text")));
    else cx.ctr->add("probe.uninitialised_memory_insensitive");
    // ---- consumer B: raw decoder calls in seeded order ---------------------------------------------------------------------
    {
        mon.begin("decoder");
        std::string outcome = "clean";
        try {
            std::istringstream is(f);
            CDNS::CdnsDecoder dec(is);
            Rng q(mix64(cx.seed, 2));
            for (int k = 0; k < 400; k++) {
                try {
                    switch (q.below(11)) {
                        case 0: dec.peek_type(); break;
                        case 1: dec.read_unsigned(); break;
                        case 2: dec.read_negative(); break;
                        case 3: dec.read_integer(); break;
                        case 4: dec.read_bool(); break;
                        case 5: dec.read_bytestring(); break;
                        case 6: dec.read_textstring(); break;
                        case 7: { bool i; dec.read_array_start(i); break; }
                        case 8: { bool i; dec.read_map_start(i); break; }
                        case 9: dec.read_break(); break;
                        default: dec.skip_item(); break;
                    }
                } catch (CDNS::CdnsDecoderException&) { continue; }
            }
        } catch (CDNS::CdnsDecoderEnd&) { outcome = "CdnsDecoderEnd"; }
        catch (std::bad_alloc&) { outcome = "bad_alloc"; }
        catch (std::exception&) { outcome = "std::exception"; }
        catch (...) { outcome = "non-std"; cx.violation("C03", "C03/I26/non-std-exception/decoder", "something not derived from std::exception was thrown"); }
        mon.end(0);
        cx.ctr->add("outcome.decoder." + outcome);
    }
    // ---- consumer C: the tools --------------------------------------------------------------------------------------------------
    {
        simfs::FS& F = simfs::fs();
        F.reset();
        F.ctr = cx.ctr;
        F.put("/sim/d", f);
        if (!base.empty()) F.put("/sim/ok", base);
        F.default_rpolicy.max_chunk = delivery == 0 ? 0 : delivery == 1 ? 13 : 5000;
        F.default_rpolicy.eintr_pm = delivery ? 30 : 0;
        F.default_rpolicy.seed = mix64(cx.seed, 3);
        struct T { const char* name; int (*fn)(int, char**); std::vector<std::string> args; };
        std::vector<T> runs = {
            {"cdns-preamble", cdns_preamble_main, {"cdns-preamble", "-b", "/sim/d"}},
            {"cdns-blocks", cdns_blocks_main, {"cdns-blocks", "/sim/d"}},
            {"cdns-blocks", cdns_blocks_main, {"cdns-blocks", "-n", std::to_string(r.below(3)), "/sim/d"}},
            {"cdns-items", cdns_items_main, {"cdns-items", "/sim/d"}},
            {"cdns-items", cdns_items_main, {"cdns-items", r.coin() ? "-q" : r.coin() ? "-a" : "-m", "-n", "0-" + std::to_string(r.below(50)), "/sim/d"}},
            {"cdns-itemcount", cdns_itemcount_main, {"cdns-itemcount", "-b", "-p", "/sim/d"}},
            {"cdns-itemcount", cdns_itemcount_main, {"cdns-itemcount", "/sim/d"}},
            {"cdns-merge", cdns_merge_main, {"cdns-merge", "-o", "/sim/m1", "/sim/d", "/sim/ok"}},
            {"cdns-merge", cdns_merge_main, {"cdns-merge", "-o", "/sim/m2", "/sim/ok", "/sim/d", "/sim/d"}},
        };
        for (auto& t : runs) {
            // cdns-merge also reads the intact companion file: its size counts as input
            mon.input_size = f.size() + (std::string(t.name) == "cdns-merge" ? base.size() : 0);
            mon.begin(t.name);
            tools::Result res;
            try {
                res = tools::run(t.fn, t.args);
            } catch (...) {
                res.escaped = true;
                res.escaped_what = "non-std exception";
            }
            mon.end(0);
            if (res.escaped) cx.violation("C03", std::string("C03/I26/tool-did-not-exit-normally/") + t.name, std::string(t.name) + ": an exception left main(): " + res.escaped_what);
            else cx.ctr->add(std::string("outcome.tool.") + (res.err.empty() ? "silent" : "diagnostic"));
        }
        // whatever cdns-merge wrote must itself be readable without incident
        for (const char* m : {"/sim/m1", "/sim/m2"})
            if (F.exists(m) && !F.get(m).empty()) {
                try { ref::Interp::file(F.get(m)); cx.ctr->add("probe.merge_of_damaged_input_valid"); }
                catch (std::exception&) { cx.ctr->add("probe.merge_of_damaged_input_invalid"); }
            }
        F.reset();
    }
    cx.nontrivial = !f.empty();
    cx.state_key = kinds + (valid_after ? "V" : "I") + "," ;
    for (auto& o : outcomes) cx.state_key += o + ",";
}
