// Engine interface: one "run" = one plan derived from one seed, executed against the real library.
#pragma once
#include "common.h"

namespace sim {

struct RunCtx {
    std::string prop;           // property the check is run for (selects the workload profile)
    std::string tier;           // quick | thorough
    uint64_t seed = 0;          // run seed
    unsigned slot = 0, slots = 1;   // engines that enumerate faults per scenario: which fault of the scenario this run injects
    bool has_keep = false;      // replay / minimisation: execute only these op indices
    std::vector<unsigned> keep;
    bool describe = false;      // fill `description`
    // results
    EventLog log;
    std::vector<Violation> viol;
    Counters* ctr = nullptr;
    unsigned n_ops = 0;         // number of ops in the full plan (index range for the minimiser)
    std::vector<std::string> tags;      // feature tags of the executed ops
    std::string description;            // human readable plan
    std::string state_key;              // abstract state reached (for the distinct-states measure)
    bool nontrivial = false;            // set by the engine by its own stated rule

    bool kept(unsigned i) const {
        if (!has_keep) return true;
        for (unsigned k : keep) if (k == i) return true;
        return false;
    }
    void violation(const std::string& prop_, const std::string& sig, const std::string& detail) {
        if (viol.size() < 50) viol.push_back({prop_, sig, detail});
        log.ev("VIOLATION " + sig);
    }
    void tag(const std::string& t) {
        for (auto& x : tags) if (x == t) return;
        tags.push_back(t);
    }
};

typedef void (*EngineFn)(RunCtx&);
struct EngineDef {
    const char* name;
    EngineFn fn;
    const char* what;
};
const EngineDef* find_engine(const std::string& name);

// engines (X-macro: name -> void engine_<name>(RunCtx&))
#define ENGINE_LIST \
    ENGINE_DECL(pipeline) \
    ENGINE_DECL(fault) \
    ENGINE_DECL(eof) \
    ENGINE_DECL(eofdec) \
    ENGINE_DECL(decode) \
    ENGINE_DECL(reencode) \
    ENGINE_DECL(sink) \
    ENGINE_DECL(writers) \
    ENGINE_DECL(objects) \
    ENGINE_DECL(tools) \
    ENGINE_DECL(damage) \
    ENGINE_DECL(threads) \
    ENGINE_DECL(flushenum)
#define ENGINE_DECL(n) void engine_##n(RunCtx&);
ENGINE_LIST
#undef ENGINE_DECL

}  // namespace sim
