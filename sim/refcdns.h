// RefCDNS: an independent RFC 8618 schema validator and interpreter working on RefCBOR trees.
// Written from the RFC's CDDL; shares no code and no key tables with /repo/src.
#pragma once
#include "refcbor.h"
#include <algorithm>

namespace ref {

using MRec = std::map<std::string, std::string>;  // canonical record: member name -> printed value

inline std::string dump(const MRec& r) {
    std::string s;
    for (auto& kv : r) { s += kv.first; s += '='; s += kv.second; s += ';'; }
    return s;
}
inline std::string first_diff(const MRec& a, const MRec& b) {
    for (auto& kv : a) {
        auto it = b.find(kv.first);
        if (it == b.end()) return "member '" + kv.first + "' (=" + kv.second.substr(0, 80) + ") only on the left";
        if (it->second != kv.second) return "member '" + kv.first + "': " + kv.second.substr(0, 80) + " != " + it->second.substr(0, 80);
    }
    for (auto& kv : b) if (!a.count(kv.first)) return "member '" + kv.first + "' (=" + kv.second.substr(0, 80) + ") only on the right";
    return "";
}

struct SchemaError : std::runtime_error {
    size_t off;
    SchemaError(const std::string& m, size_t o) : std::runtime_error(m + " (item at offset " + std::to_string(o) + ")"), off(o) {}
};

struct RParams {
    uint64_t tps = 0, max_items = 0;
    uint64_t qr_hints = 0, sig_hints = 0, rr_hints = 0, other_hints = 0;
    MRec storage;        // every storage-parameters member incl. lists (printed)
    bool has_collection = false;
    MRec collection;
};

struct RBlock {
    size_t off = 0, end = 0;
    bool has_bp_index = false;
    uint64_t bp_index = 0;
    bool has_earliest = false;
    uint64_t e_secs = 0, e_ticks = 0;
    bool has_stats = false;
    MRec stats;
    std::vector<MRec> qr;
    std::vector<std::pair<MRec, uint64_t>> aec;
    std::vector<MRec> mm;
    bool has_qr_array = false, has_aec_array = false, has_mm_array = false;
    size_t table_size[9] = {0, 0, 0, 0, 0, 0, 0, 0, 0};
    std::vector<std::string> duplicates;   // "table <t> entries <i>,<j>"
    std::vector<std::string> unreachable;  // "table <t> entry <i>"
    std::set<std::string> members;         // which hint-governed members occur: "qr.<k>", "sig.<k>", "rr.<k>"
    uint64_t max_offset = 0;               // largest stored time offset
    bool empty_item = false;               // an item map with no member at all
};

struct RFile {
    uint64_t major = 0, minor = 0;
    bool has_private = false;
    uint64_t priv = 0;
    std::vector<RParams> params;
    std::vector<RBlock> blocks;
    bool blocks_indef = false;
    size_t blocks_array_off = 0;   // offset of the head of the block array
};

static const char* TABLE_NAME[9] = {"ip-address", "classtype", "name-rdata", "qr-sig", "qlist", "qrr", "rrlist", "rr", "mm-data"};

class Interp {
public:
    // Full validation + interpretation of a complete file image
    static RFile file(const std::string& bytes) {
        Node root = Decoder(bytes).parse_all();
        return file_node(root);
    }
    static RFile file_node(const Node& root) {
        Interp I;
        RFile f;
        need(root.is_array(), "file is not an array", root);
        need(root.kids.size() == 3, "file array does not have 3 elements", root);
        need(root.kids[0].is_text() && root.kids[0].bytes == "C-DNS", "file type id is not \"C-DNS\"", root.kids[0]);
        I.preamble(root.kids[1], f);
        const Node& blocks = root.kids[2];
        need(blocks.is_array(), "file blocks is not an array", blocks);
        f.blocks_indef = blocks.indef;
        f.blocks_array_off = blocks.off;
        for (auto& b : blocks.kids) f.blocks.push_back(I.block(b, f));
        return f;
    }

private:
    static void need(bool c, const std::string& m, const Node& n) { if (!c) throw SchemaError(m, n.off); }
    static uint64_t u(const Node& n, const char* what, uint64_t max = ~0ULL) {
        need(n.is_uint(), std::string(what) + " is not an unsigned integer", n);
        need(n.arg <= max, std::string(what) + " out of range", n);
        return n.arg;
    }
    static std::string us(const Node& n, const char* what, uint64_t max = ~0ULL) { return std::to_string(u(n, what, max)); }
    static std::string is(const Node& n, const char* what) {
        need(n.is_int(), std::string(what) + " is not an integer", n);
        __int128 v = n.ival();
        need(v >= -((__int128)1 << 63) && v < ((__int128)1 << 63), std::string(what) + " outside int64", n);
        return std::to_string((long long)v);
    }
    // iterate a map: known integer keys dispatched, unknown keys ignored, duplicate keys rejected
    template <class F> static void each(const Node& m, const char* what, F f) {
        need(m.is_map(), std::string(what) + " is not a map", m);
        std::set<std::string> seen;
        for (size_t i = 0; i + 1 < m.kids.size(); i += 2) {
            const Node& k = m.kids[i];
            if (!k.is_int()) continue;  // non-integer key: unknown, ignored
            __int128 kv = k.ival();
            std::string ks = encode_preferred(k);
            need(seen.insert(ks).second, std::string(what) + " has a duplicate key", k);
            if (kv < -1000000 || kv > 1000000) continue;
            f((long)kv, m.kids[i + 1]);
        }
    }

    void preamble(const Node& n, RFile& f) {
        bool hmaj = false, hmin = false, hbp = false;
        each(n, "file preamble", [&](long k, const Node& v) {
            switch (k) {
                case 0: f.major = u(v, "major-format-version"); hmaj = true; break;
                case 1: f.minor = u(v, "minor-format-version"); hmin = true; break;
                case 2: f.priv = u(v, "private-version"); f.has_private = true; break;
                case 3:
                    need(v.is_array(), "block-parameters is not an array", v);
                    need(!v.kids.empty(), "block-parameters is empty", v);
                    for (auto& bp : v.kids) f.params.push_back(block_parameters(bp));
                    hbp = true;
                    break;
            }
        });
        need(hmaj && hmin && hbp, "file preamble lacks a mandatory member", n);
    }
    static std::string list_u(const Node& a, const char* what, uint64_t max) {
        need(a.is_array(), std::string(what) + " is not an array", a);
        std::string s = "[";
        for (auto& k : a.kids) { s += us(k, what, max); s += ","; }
        return s + "]";
    }
    RParams block_parameters(const Node& n) {
        RParams p;
        bool hs = false;
        each(n, "block parameters", [&](long k, const Node& v) {
            if (k == 0) { storage(v, p); hs = true; }
            else if (k == 1) { p.has_collection = true; collection(v, p); }
        });
        need(hs, "block parameters lack storage-parameters", n);
        return p;
    }
    void storage(const Node& n, RParams& p) {
        int mand = 0;
        each(n, "storage parameters", [&](long k, const Node& v) {
            switch (k) {
                case 0: p.tps = u(v, "ticks-per-second"); p.storage["tps"] = std::to_string(p.tps); mand |= 1; break;
                case 1: p.max_items = u(v, "max-block-items"); p.storage["max"] = std::to_string(p.max_items); mand |= 2; break;
                case 2: {
                    int hm = 0;
                    each(v, "storage hints", [&](long hk, const Node& hv) {
                        switch (hk) {
                            case 0: p.qr_hints = u(hv, "query-response-hints"); hm |= 1; break;
                            case 1: p.sig_hints = u(hv, "query-response-signature-hints"); hm |= 2; break;
                            case 2: p.rr_hints = u(hv, "rr-hints"); hm |= 4; break;
                            case 3: p.other_hints = u(hv, "other-data-hints"); hm |= 8; break;
                        }
                    });
                    need(hm == 15, "storage hints lack a mandatory member", v);
                    p.storage["hints"] = std::to_string(p.qr_hints) + "/" + std::to_string(p.sig_hints) + "/" +
                                         std::to_string(p.rr_hints) + "/" + std::to_string(p.other_hints);
                    mand |= 4;
                    break;
                }
                case 3: p.storage["opcodes"] = list_u(v, "opcode", ~0ULL); mand |= 8; break;
                case 4: p.storage["rrtypes"] = list_u(v, "rr-type", ~0ULL); mand |= 16; break;
                case 5: p.storage["flags"] = us(v, "storage-flags"); break;
                case 6: p.storage["cp4"] = us(v, "client-address-prefix-ipv4"); break;
                case 7: p.storage["cp6"] = us(v, "client-address-prefix-ipv6"); break;
                case 8: p.storage["sp4"] = us(v, "server-address-prefix-ipv4"); break;
                case 9: p.storage["sp6"] = us(v, "server-address-prefix-ipv6"); break;
                case 10: need(v.is_text(), "sampling-method is not text", v); p.storage["sampling"] = sim::hex(v.bytes); break;
                case 11: need(v.is_text(), "anonymization-method is not text", v); p.storage["anon"] = sim::hex(v.bytes); break;
            }
        });
        need(mand == 31, "storage parameters lack a mandatory member", n);
    }
    void collection(const Node& n, RParams& p) {
        each(n, "collection parameters", [&](long k, const Node& v) {
            switch (k) {
                case 0: p.collection["query_timeout"] = us(v, "query-timeout"); break;
                case 1: p.collection["skew_timeout"] = us(v, "skew-timeout"); break;
                case 2: p.collection["snaplen"] = us(v, "snaplen"); break;
                case 3: need(v.is_bool(), "promisc is not a bool", v); p.collection["promisc"] = v.ai == 21 ? "1" : "0"; break;
                case 4: {
                    need(v.is_array(), "interfaces is not an array", v);
                    std::string s = "[";
                    for (auto& k2 : v.kids) { need(k2.is_text(), "interface is not text", k2); s += sim::hex(k2.bytes) + ","; }
                    p.collection["interfaces"] = s + "]";
                    break;
                }
                case 5: {
                    need(v.is_array(), "server-addresses is not an array", v);
                    std::string s = "[";
                    for (auto& k2 : v.kids) { need(k2.is_bytes(), "server address is not a byte string", k2); s += sim::hex(k2.bytes) + ","; }
                    p.collection["server_address"] = s + "]";
                    break;
                }
                case 6: p.collection["vlan_ids"] = list_u(v, "vlan-id", ~0ULL); break;
                case 7: need(v.is_text(), "filter is not text", v); p.collection["filter"] = sim::hex(v.bytes); break;
                case 8: need(v.is_text(), "generator-id is not text", v); p.collection["generator_id"] = sim::hex(v.bytes); break;
                case 9: need(v.is_text(), "host-id is not text", v); p.collection["host_id"] = sim::hex(v.bytes); break;
            }
        });
    }

    // ---------------------------------------------------------------------------------------
    struct Tables {
        std::vector<const Node*> t[9];
        std::vector<char> reached[9];
    };
    static const Node& entry(Tables& T, int t, uint64_t idx, const Node& at) {
        if (idx >= T.t[t].size())
            throw SchemaError(std::string("index ") + std::to_string(idx) + " outside table " + TABLE_NAME[t] + " of size " +
                              std::to_string(T.t[t].size()), at.off);
        T.reached[t][idx] = 1;
        return *T.t[t][idx];
    }
    static std::string bstr_entry(Tables& T, int t, const Node& idxnode, const char* what) {
        const Node& e = entry(T, t, u(idxnode, what), idxnode);
        return sim::hex(e.bytes);
    }
    static std::string classtype_entry(Tables& T, const Node& idxnode, const char* what) {
        const Node& e = entry(T, 1, u(idxnode, what), idxnode);
        std::string ty, cl;
        bool ht = false, hc = false;
        each(e, "classtype", [&](long k, const Node& v) {
            if (k == 0) { ty = us(v, "type", 65535); ht = true; }
            else if (k == 1) { cl = us(v, "class", 65535); hc = true; }
        });
        need(ht && hc, "classtype lacks a mandatory member", e);
        return ty + ":" + cl;
    }
    static std::string qlist_entry(Tables& T, const Node& idxnode) {
        const Node& l = entry(T, 4, u(idxnode, "question list index"), idxnode);
        need(l.is_array(), "question list is not an array", l);
        std::string s = "[";
        for (auto& qi : l.kids) {
            const Node& q = entry(T, 5, u(qi, "question index"), qi);
            std::string nm, ct;
            bool hn = false, hc = false;
            each(q, "question", [&](long k, const Node& v) {
                if (k == 0) { nm = bstr_entry(T, 2, v, "name-index"); hn = true; }
                else if (k == 1) { ct = classtype_entry(T, v, "classtype-index"); hc = true; }
            });
            need(hn && hc, "question lacks a mandatory member", q);
            s += nm + ":" + ct + ",";
        }
        return s + "]";
    }
    std::string rrlist_entry(Tables& T, const Node& idxnode, RBlock& b) {
        const Node& l = entry(T, 6, u(idxnode, "rr list index"), idxnode);
        need(l.is_array(), "rr list is not an array", l);
        std::string s = "[";
        for (auto& ri : l.kids) {
            const Node& r = entry(T, 7, u(ri, "rr index"), ri);
            std::string nm, ct, ttl = "-", rd = "-";
            bool hn = false, hc = false;
            each(r, "rr", [&](long k, const Node& v) {
                switch (k) {
                    case 0: nm = bstr_entry(T, 2, v, "name-index"); hn = true; break;
                    case 1: ct = classtype_entry(T, v, "classtype-index"); hc = true; break;
                    case 2: ttl = us(v, "ttl"); b.members.insert("rr.0"); break;
                    case 3: rd = bstr_entry(T, 2, v, "rdata-index"); b.members.insert("rr.1"); break;
                }
            });
            need(hn && hc, "rr lacks a mandatory member", r);
            s += nm + ":" + ct + ":" + ttl + ":" + rd + ",";
        }
        return s + "]";
    }
    static std::string canon(const Node& n) {  // canonical bytes of a value: maps sorted by encoded key
        if (n.major == 5) {
            std::vector<std::pair<std::string, std::string>> m;
            for (size_t i = 0; i + 1 < n.kids.size(); i += 2) m.push_back({canon(n.kids[i]), canon(n.kids[i + 1])});
            std::sort(m.begin(), m.end());
            std::string s;
            put_head(s, 5, m.size());
            for (auto& kv : m) { s += kv.first; s += kv.second; }
            return s;
        }
        if (n.major == 4) {
            std::string s;
            put_head(s, 4, n.kids.size());
            for (auto& k : n.kids) s += canon(k);
            return s;
        }
        if (n.major == 6) { std::string s; put_head(s, 6, n.arg); return s + canon(n.kids[0]); }
        return encode_preferred(n);
    }
    static std::string ts_plus(const RBlock& b, const RParams& p, uint64_t off, const Node& at) {
        need(b.has_earliest, "time offset stored but block has no earliest-time", at);
        need(p.tps != 0, "ticks-per-second is zero", at);
        unsigned __int128 total = (unsigned __int128)b.e_secs * p.tps + b.e_ticks + off;
        unsigned __int128 secs = total / p.tps;
        need(secs <= (unsigned __int128)~0ULL, "record time overflows", at);
        return std::to_string((uint64_t)secs) + "." + std::to_string((uint64_t)(total % p.tps));
    }

    RBlock block(const Node& n, const RFile& f) {
        RBlock b;
        b.off = n.off;
        b.end = n.end;
        need(n.is_map(), "block is not a map", n);
        const Node *pre = nullptr, *stats = nullptr, *tables = nullptr, *qrs = nullptr, *aecs = nullptr, *mms = nullptr;
        each(n, "block", [&](long k, const Node& v) {
            switch (k) {
                case 0: pre = &v; break;
                case 1: stats = &v; break;
                case 2: tables = &v; break;
                case 3: qrs = &v; break;
                case 4: aecs = &v; break;
                case 5: mms = &v; break;
            }
        });
        need(pre != nullptr, "block lacks its preamble", n);
        each(*pre, "block preamble", [&](long k, const Node& v) {
            if (k == 0) {
                need(v.is_array() && v.kids.size() == 2, "earliest-time is not a 2-element array", v);
                b.e_secs = u(v.kids[0], "earliest-time seconds");
                b.e_ticks = u(v.kids[1], "earliest-time ticks");
                b.has_earliest = true;
            } else if (k == 1) { b.bp_index = u(v, "block-parameters-index"); b.has_bp_index = true; }
        });
        need(b.bp_index < f.params.size(), "block-parameters-index outside the preamble's array", *pre);
        const RParams& P = f.params[b.bp_index];
        if (stats) {
            b.has_stats = true;
            static const char* sn[6] = {"processed_messages", "qr_data_items", "unmatched_queries", "unmatched_responses",
                                        "discarded_opcode", "malformed_items"};
            each(*stats, "block statistics", [&](long k, const Node& v) { if (k >= 0 && k < 6) b.stats[sn[k]] = us(v, sn[k]); });
        }
        Tables T;
        if (tables) {
            each(*tables, "block tables", [&](long k, const Node& v) {
                if (k < 0 || k > 8) return;
                need(v.is_array(), std::string("table ") + TABLE_NAME[k] + " is not an array", v);
                for (auto& e : v.kids) {
                    if (k == 0 || k == 2) need(e.is_bytes(), std::string("entry of table ") + TABLE_NAME[k] + " is not a byte string", e);
                    else if (k == 4 || k == 6) need(e.is_array(), std::string("entry of table ") + TABLE_NAME[k] + " is not an array", e);
                    else need(e.is_map(), std::string("entry of table ") + TABLE_NAME[k] + " is not a map", e);
                    T.t[k].push_back(&e);
                }
            });
        }
        for (int t = 0; t < 9; t++) { T.reached[t].assign(T.t[t].size(), 0); b.table_size[t] = T.t[t].size(); }

        auto extended = [&](const Node& v, const char* pfx, MRec& r, int qbit, int abit) {
            each(v, "query/response extended", [&](long k, const Node& x) {
                switch (k) {
                    case 0: r[std::string(pfx) + "_questions"] = qlist_entry(T, x); b.members.insert(qbit >= 0 ? "qr." + std::to_string(qbit) : std::string("qr.rq")); break;
                    case 1: r[std::string(pfx) + "_answers"] = rrlist_entry(T, x, b); b.members.insert("qr." + std::to_string(abit)); break;
                    case 2: r[std::string(pfx) + "_authority"] = rrlist_entry(T, x, b); b.members.insert("qr." + std::to_string(abit + 1)); break;
                    case 3: r[std::string(pfx) + "_additional"] = rrlist_entry(T, x, b); b.members.insert("qr." + std::to_string(abit + 2)); break;
                }
            });
        };

        if (qrs) {
            b.has_qr_array = true;
            need(qrs->is_array(), "query-responses is not an array", *qrs);
            for (auto& q : qrs->kids) {
                MRec r;
                need(q.is_map(), "query/response item is not a map", q);
                if (q.kids.empty()) b.empty_item = true;
                each(q, "query/response", [&](long k, const Node& v) {
                    switch (k) {
                        case 0: {
                            uint64_t off = u(v, "time-offset");
                            if (off > b.max_offset) b.max_offset = off;
                            r["ts"] = ts_plus(b, P, off, v);
                            b.members.insert("qr.0");
                            break;
                        }
                        case 1: r["client_ip"] = bstr_entry(T, 0, v, "client-address-index"); b.members.insert("qr.1"); break;
                        case 2: r["client_port"] = us(v, "client-port", 65535); b.members.insert("qr.2"); break;
                        case 3: r["transaction_id"] = us(v, "transaction-id", 65535); b.members.insert("qr.3"); break;
                        case 4: {
                            b.members.insert("qr.4");
                            const Node& s = entry(T, 3, u(v, "qr-signature-index"), v);
                            static const char* sgn[17] = {"server_ip", "server_port", "qr_transport_flags", "qr_type", "qr_sig_flags",
                                                          "query_opcode", "qr_dns_flags", "query_rcode", "query_classtype", "query_qdcount",
                                                          "query_ancount", "query_nscount", "query_arcount", "query_edns_version",
                                                          "query_udp_size", "query_opt_rdata", "response_rcode"};
                            each(s, "qr signature", [&](long sk, const Node& sv) {
                                if (sk < 0 || sk > 16) return;
                                b.members.insert("sig." + std::to_string(sk));
                                if (sk == 0) r[sgn[sk]] = bstr_entry(T, 0, sv, "server-address-index");
                                else if (sk == 8) r[sgn[sk]] = classtype_entry(T, sv, "query-classtype-index");
                                else if (sk == 15) r[sgn[sk]] = bstr_entry(T, 2, sv, "query-opt-rdata-index");
                                else r[sgn[sk]] = us(sv, sgn[sk]);
                            });
                            break;
                        }
                        case 5: r["client_hoplimit"] = us(v, "client-hoplimit", 255); b.members.insert("qr.5"); break;
                        case 6: r["response_delay"] = is(v, "response-delay"); b.members.insert("qr.6"); break;
                        case 7: r["query_name"] = bstr_entry(T, 2, v, "query-name-index"); b.members.insert("qr.7"); break;
                        case 8: r["query_size"] = us(v, "query-size"); b.members.insert("qr.8"); break;
                        case 9: r["response_size"] = us(v, "response-size"); b.members.insert("qr.9"); break;
                        case 10:
                            b.members.insert("qr.10");
                            each(v, "response-processing-data", [&](long pk, const Node& pv) {
                                if (pk == 0) r["bailiwick"] = bstr_entry(T, 2, pv, "bailiwick-index");
                                else if (pk == 1) r["processing_flags"] = us(pv, "processing-flags");
                            });
                            break;
                        case 11: extended(v, "query", r, 11, 12); break;
                        case 12: extended(v, "response", r, -1, 15); break;
                        case -1: need(v.is_text(), "asn is not text", v); r["asn"] = sim::hex(v.bytes); break;
                        case -2: need(v.is_text(), "country-code is not text", v); r["country_code"] = sim::hex(v.bytes); break;
                        case -3: r["round_trip_time"] = is(v, "round-trip-time"); break;
                    }
                });
                b.qr.push_back(r);
            }
        }
        if (aecs) {
            b.has_aec_array = true;
            need(aecs->is_array(), "address-event-counts is not an array", *aecs);
            for (auto& a : aecs->kids) {
                MRec r;
                uint64_t count = 0;
                int mand = 0;
                each(a, "address event count", [&](long k, const Node& v) {
                    switch (k) {
                        case 0: r["ae_type"] = us(v, "ae-type"); mand |= 1; break;
                        case 1: r["ae_code"] = us(v, "ae-code"); break;
                        case 2: r["ip"] = bstr_entry(T, 0, v, "ae-address-index"); mand |= 2; break;
                        case 3: r["ae_transport_flags"] = us(v, "ae-transport-flags"); break;
                        case 4: count = u(v, "ae-count"); mand |= 4; break;
                    }
                });
                need(mand == 7, "address event count lacks a mandatory member", a);
                b.aec.push_back({r, count});
            }
        }
        if (mms) {
            b.has_mm_array = true;
            need(mms->is_array(), "malformed-messages is not an array", *mms);
            for (auto& m : mms->kids) {
                MRec r;
                need(m.is_map(), "malformed message item is not a map", m);
                if (m.kids.empty()) b.empty_item = true;
                each(m, "malformed message", [&](long k, const Node& v) {
                    switch (k) {
                        case 0: {
                            uint64_t off = u(v, "time-offset");
                            if (off > b.max_offset) b.max_offset = off;
                            r["ts"] = ts_plus(b, P, off, v);
                            break;
                        }
                        case 1: r["client_ip"] = bstr_entry(T, 0, v, "client-address-index"); break;
                        case 2: r["client_port"] = us(v, "client-port", 65535); break;
                        case 3: {
                            const Node& d = entry(T, 8, u(v, "message-data-index"), v);
                            each(d, "malformed message data", [&](long dk, const Node& dv) {
                                switch (dk) {
                                    case 0: r["server_ip"] = bstr_entry(T, 0, dv, "server-address-index"); break;
                                    case 1: r["server_port"] = us(dv, "server-port", 65535); break;
                                    case 2: r["mm_transport_flags"] = us(dv, "mm-transport-flags"); break;
                                    case 3: need(dv.is_bytes(), "mm-payload is not a byte string", dv); r["mm_payload"] = sim::hex(dv.bytes); break;
                                }
                            });
                            break;
                        }
                    }
                });
                b.mm.push_back(r);
            }
        }
        // every index inside table entries must be valid even if the entry is not referenced by an item
        {
            Tables V = T;  // validation pass must not disturb reachability
            RBlock scratch;
            for (size_t i = 0; i < T.t[3].size(); i++) {
                each(*T.t[3][i], "qr signature", [&](long sk, const Node& sv) {
                    if (sk == 0) bstr_entry(V, 0, sv, "server-address-index");
                    else if (sk == 8) classtype_entry(V, sv, "query-classtype-index");
                    else if (sk == 15) bstr_entry(V, 2, sv, "query-opt-rdata-index");
                });
            }
            for (size_t i = 0; i < T.t[4].size(); i++) { Node idx = Node::uint_(i); qlist_entry(V, idx); }
            for (size_t i = 0; i < T.t[6].size(); i++) { Node idx = Node::uint_(i); rrlist_entry(V, idx, scratch); }
            for (size_t i = 0; i < T.t[8].size(); i++) {
                each(*T.t[8][i], "malformed message data", [&](long dk, const Node& dv) { if (dk == 0) bstr_entry(V, 0, dv, "server-address-index"); });
            }
        }
        for (int t = 0; t < 9; t++) {
            std::map<std::string, size_t> seen;
            for (size_t i = 0; i < T.t[t].size(); i++) {
                if (!T.reached[t][i]) b.unreachable.push_back(std::string("table ") + TABLE_NAME[t] + " entry " + std::to_string(i));
                auto ins = seen.insert({canon(*T.t[t][i]), i});
                if (!ins.second)
                    b.duplicates.push_back(std::string("table ") + TABLE_NAME[t] + " entries " + std::to_string(ins.first->second) + "," + std::to_string(i));
            }
        }
        return b;
    }
};

// A producer that does not de-duplicate its block tables (legal in RFC 8618): in two blocks out of three an equal copy of an
// ip-address / name-rdata entry is appended to the table and some of the references to the original are pointed at the copy.
// `root` is a parsed C-DNS file; returns the number of entries duplicated.
inline unsigned duplicate_table_entries(Node& root, sim::Rng& q) {
    unsigned n_dups = 0;
    if (root.kids.size() != 3) return 0;
    for (auto& blk : root.kids[2].kids) {
        if (!blk.is_map() || !q.chance(2, 3)) continue;
        Node* tables = nullptr;
        for (size_t i = 0; i + 1 < blk.kids.size(); i += 2) if (blk.kids[i].is_uint() && blk.kids[i].arg == 2) tables = &blk.kids[i + 1];
        if (!tables || !tables->is_map()) continue;
        for (int table = 0; table <= 2; table += 2) {   // 0 = ip-address, 2 = name-rdata
            Node* tab = nullptr;
            for (size_t i = 0; i + 1 < tables->kids.size(); i += 2) if (tables->kids[i].is_uint() && tables->kids[i].arg == (uint64_t)table) tab = &tables->kids[i + 1];
            if (!tab || !tab->is_array() || tab->kids.empty()) continue;
            uint64_t orig = q.below(tab->kids.size()), copy = tab->kids.size();
            Node dup = tab->kids[orig];
            tab->kids.push_back(dup);
            n_dups++;
            // references to table `table`: (container key in block, member key) pairs; -1 container = inside block tables
            auto repoint = [&](Node& map, uint64_t member) {
                for (size_t i = 0; i + 1 < map.kids.size(); i += 2)
                    if (map.kids[i].is_uint() && map.kids[i].arg == member && map.kids[i + 1].is_uint() && map.kids[i + 1].arg == orig && q.coin()) map.kids[i + 1].arg = copy;
            };
            for (size_t i = 0; i + 1 < blk.kids.size(); i += 2) {
                if (!blk.kids[i].is_uint()) continue;
                uint64_t key = blk.kids[i].arg;
                Node& v = blk.kids[i + 1];
                if (key == 3 && v.is_array()) for (auto& qr : v.kids) {   // query/responses
                    if (!qr.is_map()) continue;
                    if (table == 0) repoint(qr, 1); else { repoint(qr, 7); for (size_t z = 0; z + 1 < qr.kids.size(); z += 2) if (qr.kids[z].is_uint() && qr.kids[z].arg == 10 && qr.kids[z + 1].is_map()) repoint(qr.kids[z + 1], 0); }
                }
                if (key == 4 && v.is_array() && table == 0) for (auto& a : v.kids) if (a.is_map()) repoint(a, 2);
                if (key == 5 && v.is_array() && table == 0) for (auto& m : v.kids) if (m.is_map()) repoint(m, 1);
                if (key == 2 && v.is_map()) for (size_t t2 = 0; t2 + 1 < v.kids.size(); t2 += 2) {
                    if (!v.kids[t2].is_uint() || !v.kids[t2 + 1].is_array()) continue;
                    uint64_t tk = v.kids[t2].arg;
                    for (auto& e : v.kids[t2 + 1].kids) {
                        if (!e.is_map()) continue;
                        if (table == 0 && (tk == 3 || tk == 8)) repoint(e, 0);                       // signature / mm-data server address
                        if (table == 2 && tk == 3) repoint(e, 15);                                    // signature opt rdata
                        if (table == 2 && tk == 5) repoint(e, 0);                                     // question name
                        if (table == 2 && tk == 7) { repoint(e, 0); repoint(e, 3); }                  // rr name, rdata
                    }
                }
            }
        }
    }
    return n_dups;
}

}  // namespace ref
