// Threads engine (C20): 2..16 real threads, each with its own exporter / encoder / reader / blocks on distinct outputs,
// run one at a time under the seeded scheduler of sched.cpp (context switch after a seeded number of basic blocks of
// library code). Oracle: (i) every thread's outputs and decoded records equal those of the same workload executed alone
// beforehand; (ii) ThreadSanitizer, which does not see the scheduler's hand-off, reports no race (the worker then dies
// with exit code 66); (iii) the context-switch hash is part of the event log, so the determinism gate covers the schedule.
#include "pipeline.h"
#include "simsched.h"
#include "simstream.h"
#include <fstream>
#include <sstream>
#include <zlib.h>
#include <lzma.h>
#include <arpa/inet.h>
#include <pthread.h>
#include <signal.h>
#include <memory>

struct TSinkRec { std::string data; };
struct TSink { std::shared_ptr<TSinkRec> rec; };
namespace CDNS {
template <>
class Writer<TSink> : public BaseCborOutputWriter {
public:
    Writer(const TSink& s, const std::string ext = "") : BaseCborOutputWriter(), m(s) { (void)ext; }
    void write(const char* p, std::size_t size) override { m.rec->data.append(p, size); }
    void rotate_output(const boost::any& value) override { if (value.type() == typeid(TSink)) m = boost::any_cast<TSink>(value); }
    TSink m;
};
}  // namespace CDNS

using namespace sim;

namespace {

enum WKind { W_EXPORT_SINK, W_EXPORT_FILE, W_READ, W_RENDER, W_TABLES, W_EXPORT_FD, W_NK };
const char* WN[] = {"export-to-sink", "export-to-simfs-file", "read-buffer", "render-records", "block-tables", "export-to-descriptors"};

struct Work {
    WKind kind;
    uint64_t seed;
    int comp;
    unsigned id;
    const std::string* input = nullptr;   // prepared file image (read / render workloads)
    CDNS::FilePreamble* shared_preamble = nullptr;   // several exporters are constructed from ONE configuration object (the constructor copies it)
    bool add_params = false;              // this exporter adds a parameter set to its own preamble
    // result
    std::string result;
    std::string error;
};

void export_records(CDNS::CdnsExporter& ex, const gen::Swarm& sw, uint64_t seed, unsigned n, uint64_t tps) {
    Rng r(seed);
    for (unsigned i = 0; i < n; i++) {
        gen::RecGen g(sw, r.next());
        switch (r.below(4)) {
            case 0: case 1: ex.buffer_qr(g.qr(tps)); break;
            case 2: ex.buffer_aec(g.aec()); break;
            default: ex.buffer_mm(g.mm(tps)); break;
        }
        if (r.chance(1, 9)) ex.write_block();
    }
}

// Canary (selftest only, VERIF_CANARY=race): an unsynchronised shared counter in the harness itself. ThreadSanitizer must
// report it although the scheduler serialises the threads; if it does not, the hand-off has become visible to TSan.
static int g_canary_counter;
static bool g_canary = getenv("VERIF_CANARY") && std::string(getenv("VERIF_CANARY")) == "race";

void do_work(Work& w) {
    if (g_canary) g_canary_counter++;
    try {
        gen::Swarm sw = gen::swarm(w.seed, gen::P_GENERAL);
        for (auto& bp : sw.sets) { bp.storage_parameters.storage_hints = CDNS::StorageHints(); if (bp.storage_parameters.max_block_items == 0) bp.storage_parameters.max_block_items = 3; }
        sw.sets.resize(1);
        switch (w.kind) {
            case W_EXPORT_SINK: {
                TSink a, b;
                a.rec = std::make_shared<TSinkRec>();
                b.rec = std::make_shared<TSinkRec>();
                {
                    std::vector<CDNS::BlockParameters> sets = sw.sets;
                    CDNS::FilePreamble own(sets);
                    CDNS::FilePreamble& fp = w.shared_preamble ? *w.shared_preamble : own;
                    CDNS::CdnsExporter ex(fp, a, (CDNS::CborOutputCompression)w.comp);
                    if (w.add_params) {
                        CDNS::BlockParameters extra;          // same tick rate as the default set, other block size and hints
                        extra.storage_parameters.max_block_items = 7;
                        extra.storage_parameters.storage_hints.query_response_signature_hints = 0x155;
                        CDNS::index_t idx = ex.add_block_parameters(extra);
                        ex.set_active_block_parameters(idx);
                        ex.get_active_block_parameters_ref().storage_parameters.storage_hints.rr_hints = 1;
                    }
                    uint64_t tps = w.shared_preamble ? CDNS::DEFAULT_TICKS_PER_SECOND : sw.sets[0].storage_parameters.ticks_per_second;
                    export_records(ex, sw, w.seed, 25, tps);
                    ex.rotate_output(b, true);
                    export_records(ex, sw, w.seed + 1, 10, tps);
                }
                w.result = a.rec->data + "|" + b.rec->data;
                break;
            }
            case W_EXPORT_FILE: {
                std::string name = "/sim/t" + std::to_string(w.id) + "-" + std::to_string(w.seed % 1000);
                const char* ext = w.comp == 1 ? ".gz" : w.comp == 2 ? ".xz" : "";
                {
                    std::vector<CDNS::BlockParameters> sets = sw.sets;
                    CDNS::FilePreamble fp(sets);
                    CDNS::CdnsExporter ex(fp, name, (CDNS::CborOutputCompression)w.comp);
                    export_records(ex, sw, w.seed, 30, sw.sets[0].storage_parameters.ticks_per_second);
                }
                w.result = name + ext;   // the file is collected from SimFS by the main thread after the join
                break;
            }
            case W_EXPORT_FD: {
                // descriptor outputs with the error path of an application: a rotation onto a descriptor that is not open fails and is
                // caught, the worker carries on buffering and rotates onto a good descriptor later. Descriptor numbers are a process-wide
                // resource: whatever number this worker's writer has closed may be handed to another thread by the next open().
                simfs::FS& F = simfs::fs();
                std::string na = "t" + std::to_string(w.id) + "a", nb = "t" + std::to_string(w.id) + "b", nc = "t" + std::to_string(w.id) + "c";
                std::string note;
                {
                    std::vector<CDNS::BlockParameters> sets = sw.sets;
                    sets[0].storage_parameters.max_block_items = 10000;
                    CDNS::FilePreamble fp(sets);
                    uint64_t tps = sets[0].storage_parameters.ticks_per_second;
                    CDNS::CdnsExporter ex(fp, F.make_fd(na), (CDNS::CborOutputCompression)w.comp);
                    export_records(ex, sw, w.seed, 12, tps);
                    try { ex.rotate_output(-1, true); note += "rotation onto -1 returned;"; } catch (std::exception& e) { note += std::string("rotation onto -1 threw;"); }
                    {   // records that stay buffered while the exporter has no usable output
                        Rng r(w.seed + 2);
                        for (unsigned i = 0; i < 20; i++) { gen::RecGen g(sw, r.next()); ex.buffer_qr(g.qr(tps)); }
                    }
                    try { ex.rotate_output(F.make_fd(nb), false); } catch (std::exception& e) { note += std::string("rotation onto a good descriptor threw: ") + e.what() + ";"; }
                    export_records(ex, sw, w.seed + 1, 10, tps);
                    try { ex.rotate_output(F.make_fd(nc), true); } catch (std::exception& e) { note += std::string("second rotation threw: ") + e.what() + ";"; }
                }
                w.result = note + "|";
                for (auto& n : {na, nb, nc}) { auto ino = F.fd_inode(n); w.result += (ino ? ino->data : std::string("<none>")) + "|" + (ino && ino->opens ? "still-open|" : ""); }
                break;
            }
            case W_READ: {
                std::istringstream is(*w.input);
                model::VFile vf = model::view_stream(is);
                for (auto& b : vf.blocks) {
                    for (auto& q : b.qr) w.result += ref::dump(q) + "\n";
                    for (auto& a : b.aec) w.result += a.first + "#" + std::to_string(a.second) + "\n";
                    for (auto& m : b.mm) w.result += ref::dump(m) + "\n";
                }
                w.result += vf.ended_clean ? "<eof>" : "<" + vf.error_type + ">";
                break;
            }
            case W_RENDER: {
                std::istringstream is(*w.input);
                CDNS::CdnsReader rd(is);
                w.result += rd.m_file_preamble.string();
                for (;;) {
                    bool eof = false;
                    CDNS::CdnsBlockRead b = rd.read_block(eof);
                    if (eof) break;
                    w.result += b.string();
                    bool end = false;
                    for (;;) { auto g = b.read_generic_qr(end); if (end) break; w.result += g.string(); }
                    for (;;) { auto g = b.read_generic_aec(end); if (end) break; w.result += g.string(); }
                    for (;;) { auto g = b.read_generic_mm(end); if (end) break; w.result += g.string(); }
                }
                break;
            }
            default: {
                CDNS::CdnsBlock blk(sw.sets[0], 0);
                Rng r(w.seed);
                uint64_t tps = sw.sets[0].storage_parameters.ticks_per_second;
                for (int i = 0; i < 40; i++) {
                    gen::RecGen g(sw, r.next());
                    blk.add_question_response_record(g.qr(tps));
                    blk.add_malformed_message(g.mm(tps));
                    w.result += std::to_string(blk.add_ip_address(g.ip())) + "," + std::to_string(blk.add_name_rdata(g.name())) + ";";
                }
                CDNS::CdnsBlock copy(blk);
                w.result += copy.string();
                break;
            }
        }
    } catch (std::exception& e) {
        w.error = e.what();
    }
}

void sentinel_handler(int) {}

void* thread_main(void* p) {
    Work* w = static_cast<Work*>(p);
    sched::thread_enter(w->id);
    do_work(*w);
    sched::thread_exit(w->id);
    return nullptr;
}

}  // namespace

// The runtime underneath the library (libstdc++'s locale facets and stream machinery, zlib, liblzma, the resolver's address
// formatting, the unwinder) initialises caches lazily on first use; inlined parts of it are compiled into the instrumented
// library objects, so the first run of a process would execute other basic blocks than later ones and schedules would not
// replay. Those facilities — and nothing of c-dns — are exercised once per process before the first threads run.
static void warm_runtime_once() {
    static bool done = false;
    if (done) return;
    done = true;
    simfs::FS& F = simfs::fs();
    F.reset();
    {
        std::ostringstream os;
        os << 1 << ' ' << 1.5 << std::endl << std::hex << 255 << std::string("x") << 'c' << 1ull << -1ll << true << "lit";
        (void)os.str();
        std::istringstream is("12 ab");
        int v = 0; is >> v;
        std::stringstream ss; ss << "x" << std::endl; std::string line; std::getline(ss, line);
    }
    { std::ofstream f("/sim/warm"); f << "x" << 1 << std::endl; f.write("abc", 3); f.flush(); }
    { std::ifstream f("/sim/warm", std::ifstream::binary); char c[4]; f.read(c, 4); f.read(c, 4); }
    { std::ifstream f("/sim/none", std::ifstream::binary); char c; f.read(&c, 1); }
    F.reset();
    (void)std::to_string(1); (void)std::to_string(1ull); (void)std::to_string(-1ll);
    { z_stream zs; memset(&zs, 0, sizeof zs); if (deflateInit2(&zs, Z_DEFAULT_COMPRESSION, Z_DEFLATED, 15 + 16, 8, Z_DEFAULT_STRATEGY) == Z_OK) { unsigned char in[8] = {1, 2, 3}, out[64]; zs.next_in = in; zs.avail_in = 3; zs.next_out = out; zs.avail_out = sizeof out; deflate(&zs, Z_FINISH); deflateEnd(&zs); } }
    { lzma_stream ls = LZMA_STREAM_INIT; if (lzma_easy_encoder(&ls, 6, LZMA_CHECK_CRC64) == LZMA_OK) { uint8_t in[8] = {1, 2, 3}, out[128]; ls.next_in = in; ls.avail_in = 3; ls.next_out = out; ls.avail_out = sizeof out; lzma_code(&ls, LZMA_FINISH); lzma_end(&ls); } }
    { char buf[80]; inet_ntop(AF_INET, "\1\2\3\4", buf, sizeof buf); inet_ntop(AF_INET6, "\1\2\3\4\5\6\7\10\1\2\3\4\5\6\7\10", buf, sizeof buf); }
    try { throw std::runtime_error("warm"); } catch (std::exception&) {}
    { boost::any a = 1; (void)boost::any_cast<int>(a); boost::any b = std::string("s"); (void)(b.type() == typeid(int)); }
    std::cerr.flush();
}

void sim::engine_threads(RunCtx& cx) {
    warm_runtime_once();
    Rng r(mix_str(cx.seed, "threads"));
    unsigned n = (unsigned)r.range(2, 16);
    unsigned maxq = (unsigned)r.pick(std::vector<unsigned>{5, 20, 100, 500, 3000});
    cx.n_ops = n;
    simfs::FS& F = simfs::fs();
    F.reset();
    // prepared inputs for the readers
    std::vector<std::string> inputs = ppl::produce_files(mix_str(cx.seed, "inputs"), "C01");
    if (inputs.empty()) inputs.push_back(std::string());
    // half of the prepared inputs come from a foreign producer: indefinite lengths, wide heads, unknown members with nested values
    // (so that the readers also run the skip / chunked-string paths)
    for (size_t k = 0; k < inputs.size(); k++) {
        if (!((mix64(cx.seed, 900 + k)) & 1) || inputs[k].empty()) continue;
        try {
            ref::Node root = ref::Decoder(inputs[k]).parse_all();
            ref::Policy pol;
            pol.rng = Rng(mix64(cx.seed, 950 + k));
            pol.indef = 300; pol.widen = 300; pol.permute = 300; pol.unknown = 250;
            std::string rew;
            ref::encode_policy(root, pol, rew);
            inputs[k] = rew;
            cx.ctr->add("probe.foreign_producer_input");
        } catch (std::exception&) {}
    }
    CDNS::FilePreamble shared_fp;   // one configuration object from which several threads construct their exporters
    F.reset();
    std::vector<Work> solo, conc;
    for (unsigned i = 0; i < n; i++) {
        Work w;
        w.kind = (WKind)r.below(W_NK);
        w.seed = r.next();
        w.comp = (int)r.below(3);
        w.id = i;
        w.input = &inputs[r.below(inputs.size())];
        if (r.coin()) { w.shared_preamble = &shared_fp; w.add_params = r.chance(1, 3); }
        if (!cx.kept(i)) continue;
        solo.push_back(w);
    }
    if (solo.size() < 1) return;
    for (unsigned i = 0; i < solo.size(); i++) solo[i].id = i;
    conc = solo;
    if (cx.describe) { cx.description = std::to_string(solo.size()) + " threads, quantum <= " + std::to_string(maxq) + " basic blocks:"; for (auto& w : solo) cx.description += std::string(" ") + WN[w.kind] + "/c" + std::to_string(w.comp); }
    auto collect = [&](Work& w) {
        if (w.kind != W_EXPORT_FILE || !w.error.empty()) return;
        std::string path = w.result;
        w.result = F.exists(path) ? F.get(path) : "<missing " + path + ">";
        F.dir.erase(path);
    };
    // process-wide state the library has no business changing: signal dispositions (a sentinel handler is installed for SIGPIPE)
    // and the working directory — compared after the threads have run
    static const int SIGS[] = {SIGPIPE, SIGHUP, SIGINT, SIGTERM, SIGUSR1, SIGUSR2, SIGCHLD, SIGXFSZ};
    struct sigaction before[8], sentinel;
    memset(&sentinel, 0, sizeof sentinel);
    sentinel.sa_handler = sentinel_handler;
    sigemptyset(&sentinel.sa_mask);
    struct sigaction old_pipe;
    sigaction(SIGPIPE, &sentinel, &old_pipe);
    for (int i = 0; i < 8; i++) sigaction(SIGS[i], nullptr, &before[i]);
    // ---- concurrently under the scheduler (FIRST: whatever the library initialises on first use is then initialised by several
    //      threads at once in the first run of every worker process) ---------------------------------------------------------
    sched::begin(mix_str(cx.seed, "schedule"), (unsigned)conc.size(), maxq);
    std::vector<pthread_t> th(conc.size());
    pthread_attr_t attr;
    pthread_attr_init(&attr);
    pthread_attr_setstacksize(&attr, 8u << 20);
    for (unsigned i = 0; i < conc.size(); i++) pthread_create(&th[i], &attr, thread_main, &conc[i]);
    sched::start_and_wait();
    for (unsigned i = 0; i < conc.size(); i++) pthread_join(th[i], nullptr);
    pthread_attr_destroy(&attr);
    for (auto& w : conc) collect(w);
    for (int i = 0; i < 8; i++) {
        struct sigaction now;
        sigaction(SIGS[i], nullptr, &now);
        if (now.sa_handler != before[i].sa_handler || now.sa_flags != before[i].sa_flags)
            cx.violation("C20", "C20/I29/process-wide-state-changed/signal-disposition", "the disposition of signal " + std::to_string(SIGS[i]) + " differs after the threads have run (the library changed process-wide state)");
    }
    sigaction(SIGPIPE, &old_pipe, nullptr);
    // ---- the same work alone, sequentially ------------------------------------------------------------------------------
    F.reset();
    for (auto& w : solo) { do_work(w); collect(w); }
    cx.log.ev("SCHED switches=" + std::to_string(sched::switches()) + " blocks=" + std::to_string(sched::blocks()) + " hash=" + std::to_string(sched::switch_hash()));
    cx.ctr->add("context_switches", sched::switches());
    cx.ctr->add("basic_blocks_scheduled", sched::blocks());
    cx.ctr->add("threads_run", conc.size());
    if (sched::switches() >= 100) cx.ctr->add("probe.run_with_100_or_more_context_switches");
    // The sequential run is no independent witness for state the library keeps per process (whatever the first caller left behind is
    // seen by both runs): what the read workloads decoded is also compared with the independent reader's view of the same input.
    for (unsigned i = 0; i < solo.size(); i++) {
        if (solo[i].kind != W_READ || !solo[i].error.empty() || !solo[i].input) continue;
        std::string want;
        try {
            ref::RFile rf = ref::Interp::file(*solo[i].input);
            for (auto& b : rf.blocks) {
                for (auto& q : b.qr) want += ref::dump(q) + "\n";
                std::map<std::string, uint64_t> agg;
                for (auto& a : b.aec) agg[ref::dump(a.first)] += a.second;
                for (auto& a : agg) want += a.first + "#" + std::to_string(a.second) + "\n";
                for (auto& m : b.mm) want += ref::dump(m) + "\n";
            }
            want += "<eof>";
        } catch (std::exception&) { continue; }   // (an input the independent reader does not accept is not judged here)
        for (int which = 0; which < 2; which++) {
            const std::string& got = which == 0 ? conc[i].result : solo[i].result;
            if (got != want) {
                size_t d = 0;
                while (d < got.size() && d < want.size() && got[d] == want[d]) d++;
                cx.violation("C20", "C20/I29/decoded-records-differ-from-independent-reader/read-buffer", std::string("thread ") + std::to_string(i) + (which == 0 ? " (concurrent run)" : " (sequential run)") + " decoded records that differ from the independent reader's at offset " +
                                                                                                            std::to_string(d) + ": ..." + json_escape(got.substr(d > 40 ? d - 40 : 0, 90)) + "... vs ..." + json_escape(want.substr(d > 40 ? d - 40 : 0, 90)) + "...");
                break;
            }
            cx.ctr->add("read_workloads_matching_independent_reader");
        }
    }
    for (unsigned i = 0; i < conc.size(); i++) {
        cx.tag(WN[conc[i].kind]);
        if (conc[i].error != solo[i].error)
            cx.violation("C20", std::string("C20/I29/thread-outcome-differs/") + WN[conc[i].kind], "thread " + std::to_string(i) + " (" + WN[conc[i].kind] + ") ended with '" + conc[i].error + "', alone with '" + solo[i].error + "'");
        else if (conc[i].result != solo[i].result) {
            size_t d = 0;
            while (d < conc[i].result.size() && d < solo[i].result.size() && conc[i].result[d] == solo[i].result[d]) d++;
            cx.violation("C20", std::string("C20/I29/thread-result-differs/") + WN[conc[i].kind], "thread " + std::to_string(i) + " (" + WN[conc[i].kind] + ", compression " + std::to_string(conc[i].comp) + ") produced " +
                                                                                      std::to_string(conc[i].result.size()) + " bytes that differ from its sequential result (" + std::to_string(solo[i].result.size()) + " bytes) at offset " + std::to_string(d) +
                                                                                      ": ..." + json_escape(conc[i].result.substr(d > 60 ? d - 60 : 0, 100)) + "... vs ..." + json_escape(solo[i].result.substr(d > 60 ? d - 60 : 0, 100)) + "...");
        }
    }
    cx.nontrivial = conc.size() >= 2;
    cx.state_key = std::to_string(conc.size()) + "q" + std::to_string(maxq) + ",";
    F.reset();
}
