// Writers engine (C14): CborOutputWriter / GzipCborOutputWriter / XzCborOutputWriter driven directly over SimFS
// (names and descriptors) with seeded byte sequences in arbitrary chunkings and rotation points. Every output that
// is closed (rotation or destruction) must decompress, with an independent decoder, to exactly the bytes the plain
// writer got for the same calls, be one complete stream, and carry the .gz / .xz suffix when named.
#include "engine.h"
#include "gen.h"
#include "model.h"
#include "simfs.h"
#include <memory>

using namespace sim;

namespace {
struct WOp {
    bool rotate = false;
    uint64_t seed = 0;
    size_t len = 0;
    int kind = 0;   // 0 random bytes, 1 compressible pattern, 2 zeros
};

std::string chunk(const WOp& op) {
    std::string s(op.len, '\0');
    Rng r(op.seed);
    if (op.kind == 0) { for (size_t i = 0; i < s.size(); i += 8) { uint64_t v = r.next(); memcpy(&s[i], &v, std::min<size_t>(8, s.size() - i)); } }
    else if (op.kind == 1) { std::string pat = gen::bytes(r, 1 + r.below(40)); for (size_t i = 0; i < s.size(); i++) s[i] = pat[i % pat.size()]; }
    return s;
}
}  // namespace

void sim::engine_writers(RunCtx& cx) {
    Rng r(mix_str(cx.seed, "writers"));
    int comp = (int)r.below(3);
    if (cx.prop == "C14" && r.chance(3, 4) && comp == 0) comp = 1 + (int)r.below(2);
    bool fd = r.chance(1, 3);
    unsigned n = (unsigned)r.range(1, 24);
    // size classes: tiny chunks dominate; a few runs use chunks of several MiB (scratch buffers sized by the chunk)
    bool big_run = r.chance(1, cx.tier == "thorough" ? 6 : 10);
    std::vector<WOp> ops;
    for (unsigned i = 0; i < n; i++) {
        WOp op;
        op.rotate = r.chance(1, 5);
        op.seed = r.next();
        op.kind = (int)r.below(3);
        switch (r.below(6)) {
            case 0: op.len = 0; break;
            case 1: op.len = 1; break;
            case 2: op.len = (size_t)r.below(100); break;
            case 3: op.len = (size_t)r.range(2040, 2056); break;
            case 4: op.len = (size_t)r.below(70000); break;
            default: op.len = big_run ? (size_t)(1u << r.range(20, 25)) + (size_t)r.below(4096) : (size_t)r.below(300000); break;
        }
        ops.push_back(op);
    }
    // 1 run in 4: one write call on the destination that is open at op `fault_op` is refused once (EIO). The writer must report it
    // (its write() or the next rotate_output() throws); outputs opened afterwards must hold exactly what is written to them.
    bool with_fault = r.chance(1, 4);
    unsigned fault_op = (unsigned)r.below(n);
    cx.n_ops = n;
    const char* ext = comp == 1 ? ".gz" : comp == 2 ? ".xz" : "";
    cx.tag(comp == 0 ? "plain" : comp == 1 ? "gzip" : "xz");
    cx.tag(fd ? "fd" : "named");
    simfs::FS& F = simfs::fs();
    F.reset();
    F.log = &cx.log;
    F.ctr = cx.ctr;
    std::vector<std::pair<std::string, std::string>> outputs;   // (SimFS name, expected plain bytes) in closing order
    std::string cur_expect;
    unsigned next_out = 0;
    auto out_name = [&](unsigned k) { return fd ? "fd:w" + std::to_string(k) : "/sim/w" + std::to_string(k) + ext; };
    std::unique_ptr<CDNS::BaseCborOutputWriter> w;
    size_t max_chunk = 0;
    try {
        if (fd) {
            int d = F.make_fd("w0");
            if (comp == 0) w.reset(new CDNS::CborOutputWriter(d)); else if (comp == 1) w.reset(new CDNS::GzipCborOutputWriter(d)); else w.reset(new CDNS::XzCborOutputWriter(d));
        } else {
            std::string nm = "/sim/w0";
            if (comp == 0) w.reset(new CDNS::CborOutputWriter(nm)); else if (comp == 1) w.reset(new CDNS::GzipCborOutputWriter(nm)); else w.reset(new CDNS::XzCborOutputWriter(nm));
        }
        next_out = 1;
        bool fault_armed = false, lossy = false;
        for (unsigned i = 0; i < n; i++) {
            if (!cx.kept(i)) continue;
            const WOp& op = ops[i];
            if (with_fault && i == fault_op && !fault_armed) {
                fault_armed = true;
                simfs::WFault wf;
                wf.kind = simfs::WFault::EIO_;
                wf.dest = fd ? "fd:w" + std::to_string(next_out - 1) : "/sim/w" + std::to_string(next_out - 1) + ext + ".part";
                unsigned calls = 0;
                for (auto& kv : F.open_files) if (kv.second.path == wf.dest) calls = kv.second.wcalls;
                wf.k = calls + 1 + (unsigned)(op.seed % 3);
                F.wfaults.push_back(wf);
                cx.tag("write-fault");
            }
            if (fault_armed) {
                // from the fault on, calls may throw (that is the report); what matters is the content of later outputs
                try {
                    if (op.rotate) {
                        if (fd) { int d = F.make_fd("w" + std::to_string(next_out)); w->rotate_output(d); } else w->rotate_output(std::string("/sim/w" + std::to_string(next_out)));
                    } else { std::string c = chunk(op); w->write(c.data(), c.size()); cur_expect += c; }
                } catch (std::exception& e) {
                    cx.log.ev(std::string("THREW ") + e.what());
                    lossy = true;   // the output that was open during this call is not judged
                }
                if (op.rotate) {
                    bool this_lossy = lossy || (!F.wfaults.empty() && F.wfaults[0].fired);
                    if (!this_lossy) outputs.push_back({out_name(next_out - 1), cur_expect});   // untouched by the fault: must be exact
                    cur_expect.clear();
                    next_out++;
                    lossy = false;
                    if (!F.wfaults.empty() && F.wfaults[0].fired) F.wfaults.clear();
                }
                continue;
            }
            if (op.rotate) {
                cx.log.ev("ROTATE");
                if (cx.describe) cx.description += "rotate; ";
                if (fd) { int d = F.make_fd("w" + std::to_string(next_out)); w->rotate_output(d); }
                else w->rotate_output(std::string("/sim/w" + std::to_string(next_out)));
                outputs.push_back({out_name(next_out - 1), cur_expect});
                cur_expect.clear();
                next_out++;
                cx.tag("rotate");
            } else {
                std::string c = chunk(op);
                cx.log.ev("WRITE " + std::to_string(c.size()));
                if (cx.describe) cx.description += "write " + std::to_string(c.size()) + " bytes (kind " + std::to_string(op.kind) + "); ";
                if (c.size() > max_chunk) max_chunk = c.size();
                w->write(c.data(), c.size());
                cur_expect += c;
                if (c.size() >= (1u << 20)) { cx.tag("chunk>=1MiB"); cx.ctr->add("probe.chunk_of_1MiB_or_more"); }
                if (c.empty()) cx.ctr->add("probe.empty_chunk");
            }
        }
        cx.log.ev("DESTROY");
        w.reset();
        bool last_lossy = lossy || (!F.wfaults.empty() && F.wfaults[0].fired);   // (the fault may fire only now, in the closing flush)
        if (!last_lossy) outputs.push_back({out_name(next_out - 1), cur_expect});
        F.wfaults.clear();
    } catch (std::exception& e) {
        cx.violation("C14", "C14/I13/unexpected-exception", std::string("fault-free writer run threw: ") + e.what());
        w.reset();
        F.reset();
        F.log = nullptr;
        return;
    }
    cx.ctr->max("max.chunk_bytes", max_chunk);
    for (auto& o : outputs) {
        std::string raw;
        if (fd) {
            auto ino = F.fd_inode(o.first.substr(3));
            raw = ino ? ino->data : "";
            if (ino && ino->opens != 0) cx.violation("C14", "C14/I13/descriptor-not-closed", o.first + " still open");
        } else {
            if (!F.exists(o.first)) { cx.violation("C14", "C14/I13/suffix-or-name", "no file " + o.first + " after the output was closed (suffix " + (*ext ? ext : "none") + ")"); continue; }
            raw = F.get(o.first);
        }
        std::string plain, err;
        bool ok = true;
        if (comp == 1) ok = model::gunzip_exact(raw, plain, err);
        else if (comp == 2) ok = model::unxz_exact(raw, plain, err);
        else plain = raw;
        if (!ok) cx.violation("C14", "C14/I13/not-one-complete-stream", o.first + ": " + err);
        else if (plain != o.second) {
            size_t d = 0;
            while (d < plain.size() && d < o.second.size() && plain[d] == o.second[d]) d++;
            cx.violation("C14", "C14/I13/content-differs", o.first + ": decompressed " + std::to_string(plain.size()) + " bytes, written " + std::to_string(o.second.size()) + "; first difference at " + std::to_string(d));
        } else cx.ctr->add("outputs_verified");
        if (o.second.empty()) cx.ctr->add("probe.empty_output");
    }
    cx.nontrivial = true;
    cx.state_key = std::to_string(comp) + (fd ? "d" : "n") + (max_chunk >= (1u << 20) ? "B" : max_chunk > 65536 ? "m" : "s") + ",";
    F.reset();
    F.log = nullptr;
}
