// Fault engine (C16): for a seeded scenario, a fault-free pass records the write calls each API call issues and the
// bytes every output ends with; the faulted pass re-runs the scenario with ONE write fault (the j-th write call issued
// during op #i fails with ENOSPC/EIO, is cut short, or is interrupted; once or persistently) and follows the protocol
// of DESIGN.md §4 C16:
//   (R) rotate_output must not return normally for an output that lost bytes unless an exception has been delivered
//       since the loss;
//   (V) after the first exception the failed block's records are still buffered, rotate_output to a healthy
//       destination returns normally within two attempts, and a following write_block() yields a complete valid file
//       holding exactly those records.
#include "pipeline.h"

using namespace sim;
using ppl::Pipeline;

namespace {

struct FaultSpec {
    unsigned op = 0;        // index of the op during which the fault fires
    unsigned j = 1;         // j-th write call issued during that op (1-based)
    simfs::WFault::Kind kind = simfs::WFault::EIO_;
    bool persist = false;
    bool open_fail = false;  // instead of a write fault: the destination of the rotate_output at `op` cannot be opened
};

const char* kind_name(simfs::WFault::Kind k) {
    switch (k) {
        case simfs::WFault::ENOSPC_: return "ENOSPC";
        case simfs::WFault::EIO_: return "EIO";
        case simfs::WFault::SHORT: return "short";
        default: return "EINTR";
    }
}

struct Pass1 {
    std::vector<unsigned> writes_in_op;     // per op index: write calls on the destination open when the op started
    std::vector<std::string> closed_raw;    // bytes of each output closed by a rotation, in order
};

}  // namespace

static void engine_fault_impl(RunCtx& cx);

namespace {

// Fault kind "the destination of rotate_output cannot be opened". Expected of the library: the call throws; the output it was
// closing is complete (byte-identical to the fault-free pass) and never changes afterwards; whatever the application hands over
// before it rotates to a usable destination is either kept buffered (the call threw) or its loss is reported by one of the next
// rotate_output calls; rotation to a usable destination returns normally within two attempts and a following write_block()
// yields a complete valid file with the buffered records.
void run_open_fail(RunCtx& cx, const Pass1& p1, unsigned fop) {
    Pipeline p(cx);
    p.checks_off = true;
    simfs::FS& F = simfs::fs();
    try { p.setup(false); } catch (std::exception&) { return; }
    cx.tag("fault-open-fails");
    const bool fd = p.plan.sw.fd_output;
    std::string feat = std::string("/kind=") + (fd ? "fd" : "name") + (p.plan.sw.compression ? "/compressed" : "/plain");
    auto V = [&](const std::string& prop, const std::string& cls, const std::string& d) { cx.violation(prop, prop + "/" + cls + feat, d + " [fault: destination of the rotate_output at op " + std::to_string(fop) + " cannot be opened]"); };
    if (cx.describe) cx.description += " || FAULT the destination of the rotate_output at op #" + std::to_string(fop) + " cannot be opened";
    size_t closed_seen = 0;
    for (unsigned i = 0; i < p.plan.ops.size(); i++) {
        if (!cx.kept(i)) continue;
        const ppl::POp& op = p.plan.ops[i];
        if (i != fop) {
            cx.log.ev(std::string("OP ") + std::to_string(i) + " " + ppl::OPN[op.kind]);
            try { p.exec(i, op); } catch (std::exception& e) { V("C16", "I16/exception-without-fault", std::string("op ") + std::to_string(i) + " threw before the fault: " + e.what()); p.ex.reset(); F.close_all_leaked(); return; }
            if (op.kind == ppl::O_ROTATE) closed_seen++;
            continue;
        }
        // ---- the failing rotation -----------------------------------------------------------------------------------------------
        cx.log.ev("OP " + std::to_string(i) + " rotate_output to an unopenable destination");
        model::MOutput old = p.M.out;
        bool threw = false;
        std::string what;
        // named outputs: either the next open for writing fails once, or the '.part' name of the destination is unusable for good
        // (a directory of that name, a stale '.part' of another owner) while the final name itself could be opened
        const std::string final_name = std::string("/sim/unopenable") + p.ext;
        const bool part_unusable = !fd && (mix64(cx.seed, 777) & 1);
        const bool older_file = !fd && (mix64(cx.seed, 778) & 1);
        const std::string older = "an intact older output under the final name";
        if (older_file) F.put(final_name, older);
        if (part_unusable) { F.unopenable.insert(final_name + ".part"); cx.tag("part-name-unusable"); }
        else if (!fd) F.fopen_fail_k = F.fopen_w_calls + 1;
        // C15: the final name of a destination whose '.part' could not be opened is never touched
        bool c15_reported = false;
        auto check_final = [&](const char* when) {
            if (fd || c15_reported) return;
            bool bad = older_file ? (!F.exists(final_name) || F.get(final_name) != older) : F.exists(final_name);
            if (bad) {
                c15_reported = true;
                cx.violation("C15", std::string("C15/I14/final-name-written-although-part-unusable/") + (p.plan.sw.compression ? "compressed" : "plain"),
                             final_name + (older_file ? " (an intact older output) was replaced or truncated " : " appeared ") + when + " although '" + final_name + ".part' could not be opened" +
                                 (F.exists(final_name) ? " (" + std::to_string(F.get(final_name).size()) + " bytes)" : std::string()));
            } else cx.ctr->add("probe.final_name_untouched_after_open_failure");
        };
        try {
            if (fd) p.ex->rotate_output(-1, op.export_);
            else p.ex->rotate_output(std::string("/sim/unopenable"), op.export_);
        } catch (std::exception& e) { threw = true; what = e.what(); }
        F.fopen_fail_k = 0;
        check_final("right after the failing rotate_output");
        cx.ctr->add("fault_fired.destination_cannot_be_opened");
        if (!threw) { V("C16", "I15/unopenable-destination-not-reported", "rotate_output returned normally although the new output could not be opened"); }
        if (op.export_) p.M.write_block();   // the export step precedes the rotation and met a healthy output
        auto old_raw = [&]() { return p.read_raw(old); };
        size_t k = closed_seen;
        bool have_ref = k < p1.closed_raw.size();
        auto check_old = [&](const char* when) {
            if (!have_ref) return;
            if (fd) { auto ino = F.fd_inode(old.name.substr(3)); if (ino && ino->opens != 0) { V("C13", "I12/output-not-closed-by-failing-rotation", old.name + " is still open " + when); return; } }
            if (old_raw() != p1.closed_raw[k])
                V("C13", "I12/output-closed-by-failing-rotation-differs", old.name + " holds " + std::to_string(old_raw().size()) + " bytes " + when + ", the complete output has " + std::to_string(p1.closed_raw[k].size()));
        };
        check_old("right after the failing rotate_output");
        // ---- the application carries on for a moment -----------------------------------------------------------------------------
        Rng r(mix64(cx.seed, 4242));
        unsigned between = (unsigned)r.below(3);
        bool lost_unreported = false;
        for (unsigned b = 0; b < between; b++) {
            gen::RecGen g(p.plan.sw, r.next());
            CDNS::GenericQueryResponse rec = g.qr(p.cur_tps());
            if (!rec.asn) rec.asn = std::string("between");
            p.M.add_qr(rec, nullptr);
            try {
                size_t ret = p.ex->buffer_qr(rec);
                bool wrote = p.M.maybe_flush();
                if (wrote) { lost_unreported = true; p.M.out.blocks.pop_back(); }   // went to the output that does not exist
                (void)ret;
            } catch (std::exception& e) { cx.log.ev(std::string("BETWEEN-THREW ") + e.what()); }
        }
        // ---- recovery ---------------------------------------------------------------------------------------------------------------
        bool rotated = false, reported = false;
        std::string rec_name, last_err;
        int attempts = 0;
        for (; attempts < 2 && !rotated; attempts++) {
            try {
                if (fd) { int d = F.make_fd("rec" + std::to_string(attempts)); rec_name = "fd:rec" + std::to_string(attempts); p.ex->rotate_output(d, false); }
                else { rec_name = "/sim/rec" + std::to_string(attempts) + p.ext; p.ex->rotate_output("/sim/rec" + std::to_string(attempts), false); }
                rotated = true;
            } catch (std::exception& e) { reported = true; last_err = e.what(); cx.log.ev(std::string("RECOVERY-ROTATE-THREW ") + e.what()); }
        }
        if (!rotated) V("C16", "I16/rotation-does-not-recover", "two consecutive rotate_output calls to usable destinations threw ('" + last_err + "')");
        else {
            if (lost_unreported && !reported) V("C16", "I15/unreported-loss", "a block was accepted while no output was open and no later call reported its loss");
            size_t q = p.ex->get_block_qr_count();
            if (q != p.M.cur.qr.size()) V("C16", "I16/pending-not-buffered", "exporter holds " + std::to_string(q) + " query/responses, the model's pending block " + std::to_string(p.M.cur.qr.size()));
            model::MBlock pending = p.M.cur;
            try {
                size_t w = p.ex->write_block();
                if (pending.items() && !w) V("C16", "I16/recovered-block-not-written", "write_block() after recovery returned 0");
                if (fd) { int d = F.make_fd("recend"); p.ex->rotate_output(d, false); } else p.ex->rotate_output(std::string("/sim/recend"), false);
                std::string raw;
                if (fd) { auto ino = F.fd_inode(rec_name.substr(3)); raw = ino ? ino->data : ""; } else raw = F.exists(rec_name) ? F.get(rec_name) : "";
                std::string plain, err;
                bool dec = true;
                if (p.plan.sw.compression == 1) dec = model::gunzip_exact(raw, plain, err); else if (p.plan.sw.compression == 2) dec = model::unxz_exact(raw, plain, err); else plain = raw;
                if (!dec) { V("C16", "I16/recovered-file-invalid", rec_name + ": " + err); V("C13", "I12/output-after-open-failure-not-self-contained", rec_name + ": " + err); }
                else if (pending.items() == 0) { if (!plain.empty()) V("C13", "I12/output-after-open-failure-not-self-contained", rec_name + " holds data although nothing was pending"); }
                else {
                    ref::RFile rf = ref::Interp::file(plain);
                    size_t before = cx.viol.size();
                    model::MOutput mo; mo.name = rec_name; mo.blocks.push_back(pending);
                    p.checks_off = false; p.compare_blocks(mo, rf); p.checks_off = true;
                    // (records handed over while no output could take them stay buffered: that block may exceed max_block_items)
                    std::string d;
                    for (size_t z = before; z < cx.viol.size() && d.empty(); z++) if (cx.viol[z].sig.find("array-above-max") == std::string::npos) d = cx.viol[z].sig + ": " + cx.viol[z].detail;
                    bool any = cx.viol.size() > before;
                    cx.viol.resize(before);
                    if (!d.empty()) V("C16", "I16/recovered-file-content", d);
                    else if (any) cx.ctr->add("probe.recovered_block_above_max_items");
                    else cx.ctr->add("probe.recovery_after_open_failure_completed");
                }
            } catch (std::exception& e) { V("C16", "I16/recovered-file-invalid", std::string("after recovery: ") + e.what()); V("C13", "I12/output-after-open-failure-not-self-contained", e.what()); }
        }
        check_old("after the application carried on and recovered");
        check_final("after the application carried on and recovered");
        cx.nontrivial = true;
        break;
    }
    cx.log.ev("DESTROY");
    try { p.ex.reset(); } catch (...) {}
    F.close_all_leaked();
    F.watcher = nullptr; F.log = nullptr;
    cx.state_key = std::string("openfail") + (fd ? "d" : "n") + std::to_string(p.plan.sw.compression) + ",";
}
// Scenario "the staging buffer is exactly full" (blocks of query/responses only): the encoder hands its 2048-byte staging buffer to the output only when the next
// item does not fit, so the one write call that carries a whole buffer can be the one issued for the closing break (buffer full to
// the last byte) or by the flush inside rotate_output (nearly full). A record is calibrated by trial runs so that the buffer holds
// exactly `target` bytes when rotate_output is called; that write call then meets the fault. Expected: as (R) and (V) above.
void run_full_buffer(RunCtx& cx) {
    simfs::FS& F = simfs::fs();
    Rng r(mix_str(cx.seed, "fullbuf") + cx.slot / 64);   // 64 (level, fault) combinations per scenario variant
    gen::Swarm sw = gen::swarm(cx.seed, gen::P_FAULT);
    sw.sets.resize(1);
    sw.sets[0].storage_parameters.storage_hints = CDNS::StorageHints();
    sw.sets[0].storage_parameters.max_block_items = 10000;
    const uint64_t tps = sw.sets[0].storage_parameters.ticks_per_second;
    const bool fd = r.chance(1, 2);
    const unsigned prev_blocks = (unsigned)r.below(3), n_pre = (unsigned)r.below(4), n_pend = (unsigned)r.range(1, 3);
    bool export_in_rotate = r.chance(1, 3);   // the block that fills the buffer is written by rotate_output(.., true) itself
    std::vector<uint64_t> seeds;
    for (int i = 0; i < 40; i++) seeds.push_back(r.next());
    // this run's fault (slot) and target fill level
    static const unsigned TARGETS[] = {2048, 2048, 2048, 2047, 2046, 2041, 2040, 2039};
    const unsigned target = TARGETS[cx.slot % 8];
    simfs::WFault::Kind kind = (simfs::WFault::Kind)((cx.slot / 8) % 4);
    bool persist = ((cx.slot / 32) & 1) && kind != simfs::WFault::EINTR_;
    cx.n_ops = 0;
    cx.tag("staging-buffer-calibrated");
    cx.tag(std::string("fault-") + kind_name(kind));
    cx.tag(persist ? "persistent" : "once");
    cx.tag(fd ? "fd" : "named");
    std::string feat = std::string("/kind=") + (fd ? "fd" : "name") + "/plain/staging-buffer-full";
    struct Out { size_t produced = 0, sink = 0; std::string old_raw, rec_raw; bool rotate_threw = false; std::string what; bool recovered = false; int attempts = 0; size_t pending_seen = 0; size_t rec_ret = 0; std::string rec_name; };
    auto dest_data = [&](const std::string& nm) -> std::string {
        if (fd) { auto ino = F.fd_inode(nm); return ino ? ino->data : std::string(); }
        if (F.exists("/sim/" + nm)) return F.get("/sim/" + nm);
        if (F.exists("/sim/" + nm + ".part")) return F.get("/sim/" + nm + ".part");
        return std::string();
    };
    auto run = [&](size_t L, bool faulted, bool stop_before_rotate) -> Out {
        Out o;
        F.reset();
        F.log = faulted ? &cx.log : nullptr;
        F.ctr = faulted ? cx.ctr : nullptr;
        std::vector<CDNS::BlockParameters> sets = sw.sets;
        CDNS::FilePreamble fp(sets);
        std::unique_ptr<CDNS::CdnsExporter> ex;
        if (fd) ex.reset(new CDNS::CdnsExporter(fp, F.make_fd("fb0"), CDNS::CborOutputCompression::NO_COMPRESSION));
        else ex.reset(new CDNS::CdnsExporter(fp, std::string("/sim/fb0"), CDNS::CborOutputCompression::NO_COMPRESSION));
        unsigned si = 0;
        try {
            for (unsigned b = 0; b < prev_blocks; b++) {
                for (unsigned q = 0; q < 1 + b; q++) { gen::RecGen g(sw, seeds[si++]); o.produced += ex->buffer_qr(g.qr(tps)); }
                o.produced += ex->write_block();
            }
            for (unsigned q = 0; q < n_pre; q++) { gen::RecGen g(sw, seeds[si++]); o.produced += ex->buffer_qr(g.qr(tps)); }
            {
                // the last item the block writes is this record's country code (a text string copied straight into the staging
                // buffer): the only way to fill the buffer beyond the 9 bytes the encoder keeps free for the next head
                gen::RecGen g(sw, seeds[si++]);
                CDNS::GenericQueryResponse rec = g.qr(tps);
                rec.round_trip_time = boost::none;
                rec.country_code = std::string(L, 'C');
                o.produced += ex->buffer_qr(rec);
            }
            if (!export_in_rotate) {
                o.produced += ex->write_block();
                for (unsigned q = 0; q < n_pend; q++) {
                    gen::RecGen g(sw, seeds[si++]);
                    CDNS::GenericQueryResponse rec = g.qr(tps);
                    rec.asn = "pending-" + std::to_string(q);
                    o.produced += ex->buffer_qr(rec);
                }
            }
            o.sink = dest_data("fb0").size();
            if (stop_before_rotate && !export_in_rotate) { ex.reset(); F.close_all_leaked(); return o; }
            if (faulted) {
                simfs::WFault wf;
                wf.kind = kind;
                wf.dest = fd ? "fd:fb0" : "/sim/fb0.part";
                unsigned calls = 0;
                for (auto& kv : F.open_files) if (kv.second.path == wf.dest) calls = kv.second.wcalls;
                wf.k = calls + 1;
                wf.persist = persist;
                wf.short_pm = 500;
                F.wfaults.push_back(wf);
                cx.log.ev("ARM-FAULT " + wf.dest + " k=" + std::to_string(wf.k));
            }
            // ---- the rotation that closes fb0 -------------------------------------------------------------------------
            for (o.attempts = 0; o.attempts < 3 && !o.recovered; o.attempts++) {
                o.rec_name = "fbrec" + std::to_string(o.attempts);
                try {
                    size_t w;
                    if (fd) w = ex->rotate_output(F.make_fd(o.rec_name), export_in_rotate && o.attempts == 0);
                    else w = ex->rotate_output(std::string("/sim/" + o.rec_name), export_in_rotate && o.attempts == 0);
                    if (o.attempts == 0) o.produced += w;
                    o.recovered = true;
                } catch (std::exception& e) {
                    if (!o.rotate_threw) o.what = e.what();
                    o.rotate_threw = true;
                    if (faulted) cx.log.ev(std::string("ROTATE-THREW ") + e.what());
                }
            }
            o.old_raw = dest_data("fb0");
            if (o.recovered) {
                o.pending_seen = ex->get_block_item_count();
                o.rec_ret = ex->write_block();
                if (fd) ex->rotate_output(F.make_fd("fbend"), false); else ex->rotate_output(std::string("/sim/fbend"), false);
                o.rec_raw = dest_data(o.rec_name);
            }
        } catch (std::exception& e) {
            if (o.what.empty()) o.what = std::string("unexpected: ") + e.what();
            o.rotate_threw = true;
            if (faulted) cx.log.ev(std::string("THREW ") + e.what());
        }
        try { ex.reset(); } catch (...) {}
        F.close_all_leaked();
        return o;
    };
    // ---- calibration: payload length such that the staging buffer holds exactly `target` bytes at the rotation --------------------
    // (with export_in_rotate the level is that after the exporter has written the block, i.e. total bytes produced before the
    //  closing break minus what reached the output — measured on a run that stops after an explicit write_block())
    size_t L = 64 + (size_t)r.below(64);
    bool calibrated = false;
    {
        bool saved = export_in_rotate;
        for (int iter = 0; iter < 12 && !calibrated; iter++) {
            // measure with an explicit write_block() (same bytes as the export inside rotate_output)
            export_in_rotate = false;
            Out t = run(L, false, true);
            export_in_rotate = saved;
            size_t fill = t.produced - t.sink;
            if (fill == target) { calibrated = true; break; }
            long delta = (long)target - (long)fill;
            if (delta < 0) delta += 2048;
            L += (size_t)delta;
            if (L > 9000) L = 64 + (L % 2048);
        }
    }
    if (!calibrated) { cx.ctr->add("full_buffer_calibration_failed"); F.reset(); F.log = nullptr; return; }
    cx.ctr->add("probe.staging_buffer_level_" + std::to_string(target));
    if (cx.describe)
        cx.description = std::string("plain ") + (fd ? "descriptor" : "named") + " output, " + std::to_string(prev_blocks) + " earlier blocks, then a block whose last record carries a country code of " + std::to_string(L) +
                         " bytes leaves exactly " + std::to_string(target) + " bytes in the encoder's staging buffer; " + (export_in_rotate ? "rotate_output(new, true)" : "write_block(), " + std::to_string(n_pend) + " records buffered, rotate_output(new, false)") +
                         " || FAULT " + kind_name(kind) + (persist ? " persistent" : " once") + " at the next write call on the output";
    Out ref0 = run(L, false, false);
    if (!ref0.recovered || ref0.rotate_threw) { cx.ctr->add("scenarios_skipped_faultfree_pass_threw"); F.reset(); F.log = nullptr; return; }
    // the fault-free pass is a scenario in its own right: the output closed with the staging buffer at this level is a complete file
    for (int which = 0; which < 2; which++) {
        const std::string& raw = which == 0 ? ref0.old_raw : ref0.rec_raw;
        try { if (!raw.empty()) ref::Interp::file(raw); }
        catch (std::exception& e) {
            std::string d = std::string(which == 0 ? "the output closed by rotate_output" : "the output that followed") + " with " + std::to_string(target) + " bytes in the encoder's staging buffer at the rotation is not a complete C-DNS file (no fault injected): " + e.what();
            cx.violation("C13", "C13/I12/closed-output-not-a-complete-file/staging-buffer-level", d);
            cx.violation("C02", "C02/I02/malformed-cbor/staging-buffer-level", d);
            if (!fd) cx.violation("C15", "C15/I14/invalid-file-under-final-name/staging-buffer-level", d);
        }
    }
    cx.log.ev("FULLBUF target " + std::to_string(target) + " L " + std::to_string(L) + " old " + std::to_string(ref0.old_raw.size()) + " rec " + std::to_string(ref0.rec_raw.size()));
    Out got = run(L, true, false);
    auto V = [&](const std::string& prop, const std::string& cls, const std::string& d) {
        cx.violation(prop, prop + "/" + cls + feat, d + " [staging buffer holds " + std::to_string(target) + " bytes at rotate_output; fault: " + kind_name(kind) + (persist ? " persistent" : " once") + " at the next write call]");
    };
    bool lost = got.old_raw != ref0.old_raw;
    if (lost) cx.ctr->add("probe.full_buffer_write_lost");
    // (R)
    if (lost && !got.rotate_threw) V("C16", "I15/unreported-loss", "rotate_output returned normally although the closed output holds " + std::to_string(got.old_raw.size()) + " of " + std::to_string(ref0.old_raw.size()) + " bytes");
    // C15: a named output that lost bytes must not be visible under its final name
    if (!fd && F.exists("/sim/fb0") && F.get("/sim/fb0") != ref0.old_raw)
        cx.violation("C15", "C15/I14/incomplete-file-under-final-name/plain", "/sim/fb0 is visible under its final name with " + std::to_string(F.get("/sim/fb0").size()) + " bytes although the complete output has " +
                                                                                  std::to_string(ref0.old_raw.size()) + " [staging buffer full at rotate_output; fault: " + kind_name(kind) + (persist ? " persistent" : " once") + "]");
    // (V)
    if (got.rotate_threw) {
        cx.ctr->add("exceptions_delivered");
        if (!got.recovered) V("C16", "I16/rotation-does-not-recover", "rotate_output to healthy destinations threw three times in a row ('" + got.what + "')");
        else {
            if (!export_in_rotate && got.pending_seen != ref0.pending_seen) V("C16", "I16/pending-not-buffered", "after the failed rotation the exporter holds " + std::to_string(got.pending_seen) + " items, fault-free " + std::to_string(ref0.pending_seen));
            if (!export_in_rotate) {
                try {
                    ref::RFile a = ref::Interp::file(got.rec_raw), b = ref::Interp::file(ref0.rec_raw);
                    bool same = a.blocks.size() == b.blocks.size();
                    for (size_t i = 0; same && i < a.blocks.size(); i++) same = a.blocks[i].qr == b.blocks[i].qr && a.blocks[i].mm == b.blocks[i].mm;
                    if (!same) V("C16", "I16/recovered-file-content", "the file written after recovery does not hold the records that were buffered");
                    else cx.ctr->add("probe.recovery_after_full_buffer_fault_completed");
                } catch (std::exception& e) { V("C16", "I16/recovered-file-invalid", std::string("the file written after recovery: ") + e.what()); }
            }
        }
    } else if (!lost) cx.ctr->add("probe.fault_absorbed_without_loss");
    cx.nontrivial = true;
    cx.state_key = std::string("fullbuf") + (fd ? "d" : "n") + std::to_string(target) + kind_name(kind) + (persist ? "p" : "o") + ",";
    F.reset();
    F.log = nullptr;
    F.ctr = nullptr;
}
}  // namespace

void sim::engine_fault(RunCtx& cx) {
    // Whatever property the check is run for (C16, or C02/C10/C13/C15 which add a fault stage), the scenarios come from the
    // same family (profile P_FAULT, selected through the property name the plan generator sees); the seeds still differ.
    std::string asked = cx.prop;
    cx.prop = "C16";
    try { engine_fault_impl(cx); } catch (...) { cx.prop = asked; throw; }
    cx.prop = asked;
}

static void engine_fault_impl(RunCtx& cx) {
    // one scenario in five is the calibrated "staging buffer exactly full at rotate_output" scenario
    if (mix_str(cx.seed, "scenario-kind") % 5 == 0) { run_full_buffer(cx); return; }
    Counters scratch_ctr;
    // ---- pass 1: fault-free ----------------------------------------------------------------------
    Pass1 p1;
    {
        RunCtx c1;
        c1.prop = cx.prop; c1.tier = cx.tier; c1.seed = cx.seed; c1.has_keep = cx.has_keep; c1.keep = cx.keep;
        c1.ctr = &scratch_ctr;
        c1.log.reset(false);
        Pipeline p(c1);
        p.checks_off = true;
        try {
            p.setup(false);
            p1.writes_in_op.assign(p.plan.ops.size(), 0);
            for (unsigned i = 0; i < p.plan.ops.size(); i++) {
                if (!c1.kept(i)) continue;
                std::string dest = p.cur_dest_path();
                unsigned before = p.wcalls_of(dest);
                bool rot = p.plan.ops[i].kind == ppl::O_ROTATE;
                // a rotation closes `dest`; count its writes through the event log instead
                uint64_t ev_before = simfs::fs().n_events;
                unsigned w = 0;
                simfs::fs().watcher = [&](const simfs::Event& e) { if (e.kind == simfs::Ev::WRITE && e.path == dest) w++; };
                p.exec(i, p.plan.ops[i]);
                simfs::fs().watcher = nullptr;
                (void)before; (void)rot; (void)ev_before;
                p1.writes_in_op[i] = w;
            }
            p1.closed_raw = p.closed_raw;
            p.ex.reset();
        } catch (std::exception& e) {
            p.ex.reset();
            simfs::fs().watcher = nullptr;
            // the scenario itself does not run fault-free: not this engine's business (the pipeline engine reports it)
            cx.ctr->add("scenarios_skipped_faultfree_pass_threw");
            cx.n_ops = c1.n_ops;
            return;
        }
        cx.n_ops = c1.n_ops;
    }
    // ---- enumerate the scenario's fault space and pick this run's fault --------------------------
    std::vector<FaultSpec> space;
    for (unsigned i = 0; i < p1.writes_in_op.size(); i++)
        for (unsigned j = 1; j <= p1.writes_in_op[i]; j++)
            for (int k = 0; k < 4; k++)
                for (int per = 0; per < 2; per++) {
                    if (k == simfs::WFault::EINTR_ && per) continue;   // a permanently interrupted call never returns in any implementation
                    FaultSpec f;
                    f.op = i; f.j = j; f.kind = (simfs::WFault::Kind)k; f.persist = per;
                    space.push_back(f);
                }
    // one more fault kind per rotation: the destination of that rotate_output cannot be opened (unopenable name / invalid descriptor)
    {
        Pipeline probe(cx);   // only to look at the plan
        ppl::Plan pl = ppl::make_plan(cx.seed, cx.prop);
        for (unsigned i = 0; i < pl.ops.size(); i++)
            if (cx.kept(i) && pl.ops[i].kind == ppl::O_ROTATE) { FaultSpec f; f.op = i; f.j = 0; f.open_fail = true; space.push_back(f); }
    }
    cx.ctr->add("fault_space_total", cx.slot == 0 ? space.size() : 0);
    if (space.empty()) { cx.ctr->add("scenarios_without_write_calls", cx.slot == 0 ? 1 : 0); return; }
    size_t pick;
    if (space.size() <= cx.slots) {
        if (cx.slot >= space.size()) { cx.ctr->add("slots_unused"); return; }   // every fault of this scenario is already covered
        pick = cx.slot;
        if (cx.slot == 0) cx.ctr->add("scenarios_enumerated_exhaustively");
    } else {
        pick = (size_t)((unsigned __int128)cx.slot * space.size() / cx.slots);
        if (cx.slot == 0) cx.ctr->add("scenarios_sampled");
    }
    FaultSpec fs = space[pick];
    if (fs.open_fail) { run_open_fail(cx, p1, fs.op); return; }

    // ---- pass 2: the faulted run -------------------------------------------------------------------
    Pipeline p(cx);
    p.checks_off = true;
    simfs::FS& F = simfs::fs();
    auto V = [&](const std::string& cls, const std::string& detail) {
        // class = invariant/kind of violation + output kind + whether a compressor sits in between (these select the code path)
        std::string feat = std::string("/kind=") + (p.plan.sw.fd_output ? "fd" : "name") + (p.plan.sw.compression ? "/compressed" : "/plain");
        cx.violation("C16", "C16/" + cls + feat, detail + " [fault: " + kind_name(fs.kind) + (fs.persist ? " persistent" : " once") + " at write #" + std::to_string(fs.j) +
                                              " of op " + std::to_string(fs.op) + " (" + ppl::OPN[p.plan.ops[fs.op].kind] + ")]");
    };
    try {
        p.setup(false);
    } catch (std::exception& e) {
        return;
    }
    cx.tag(std::string("fault-") + kind_name(fs.kind));
    cx.tag(fs.persist ? "persistent" : "once");
    if (cx.describe) cx.description += std::string(" || FAULT ") + kind_name(fs.kind) + (fs.persist ? " persistent" : " once") + " at write #" + std::to_string(fs.j) + " issued during op #" + std::to_string(fs.op);
    std::string fault_dest;
    // C15 under write faults: whatever is visible under the faulted output's final name must be the complete output
    // (the bytes of the fault-free pass) — a file that lost bytes must not be given its final name.
    auto check_final_name = [&](size_t k) {
        if (p.plan.sw.fd_output || k >= p.M.closed.size() || k >= p1.closed_raw.size()) return;
        const std::string& name = p.M.closed[k].name;
        if ((name + ".part") != fault_dest) return;
        if (F.exists(name) && F.get(name) != p1.closed_raw[k]) {
            bool older = false;
            for (auto& of : p.old_files) if (of == name && fnv1a(F.get(name)) == p.old_hash[of]) older = true;
            if (!older)
                cx.violation("C15", std::string("C15/I14/incomplete-file-under-final-name/") + (p.plan.sw.compression ? "compressed" : "plain"),
                             name + " is visible under its final name with " + std::to_string(F.get(name).size()) + " bytes although the complete output has " + std::to_string(p1.closed_raw[k].size()) +
                                 " [fault: " + kind_name(fs.kind) + (fs.persist ? " persistent" : " once") + " at write #" + std::to_string(fs.j) + " of op " + std::to_string(fs.op) + "]");
        } else cx.ctr->add("probe.faulted_output_name_checked");
    };
    bool armed = false, exception_since_fault = false;
    size_t closed_seen = 0;
    int first_exc_op = -1;
    std::string first_exc_what;
    for (unsigned i = 0; i < p.plan.ops.size() && first_exc_op < 0; i++) {
        if (!cx.kept(i)) continue;
        const ppl::POp& op = p.plan.ops[i];
        if (i == fs.op) {
            fault_dest = p.cur_dest_path();
            simfs::WFault wf;
            wf.kind = fs.kind;
            wf.dest = fault_dest;
            wf.k = p.wcalls_of(fault_dest) + fs.j;
            wf.persist = fs.persist;
            wf.short_pm = 500;
            F.wfaults.push_back(wf);
            armed = true;
            cx.log.ev("ARM-FAULT " + fault_dest + " k=" + std::to_string(wf.k));
        }
        cx.log.ev(std::string("OP ") + std::to_string(i) + " " + ppl::OPN[op.kind]);
        try {
            p.exec(i, op);
        } catch (std::exception& e) {
            first_exc_op = (int)i;
            first_exc_what = e.what();
            cx.log.ev(std::string("EXCEPTION ") + e.what());
            if (armed && !F.wfaults.empty() && F.wfaults[0].fired) exception_since_fault = true;
            // rotate_output(export=true) that fails after its block-export step completed: the block has left the buffer for the
            // failed (and reported) output. Recognised by the exporter holding nothing any more; the exporter may or may not
            // have reset its blocks-written counter at that point, so that counter is not consulted.
            if (op.kind == ppl::O_ROTATE && op.export_ && p.ex->get_block_item_count() == 0) p.M.write_block();
            break;
        }
        if (op.kind == ppl::O_ROTATE) {
            // an output was closed and rotate_output returned normally
            size_t k = closed_seen++;
            bool fired = armed && !F.wfaults.empty() && F.wfaults[0].fired > 0;
            if (fired) check_final_name(k);
            if (fired && !exception_since_fault && k < p1.closed_raw.size() && k < p.closed_raw.size()) {
                const model::MOutput& mo = p.M.closed[k];
                bool is_faulted_output = (mo.name + (p.plan.sw.fd_output ? "" : ".part")) == fault_dest || mo.name == fault_dest;
                if (is_faulted_output) {
                    if (p.closed_raw[k] != p1.closed_raw[k]) {
                        cx.tag(p.plan.sw.fd_output ? "kind-fd" : "kind-name");
                        cx.violation("C10", "C10/I17/byte-count-under-write-fault", mo.name + ": the calls returned normally (their counts add up to the complete output of " + std::to_string(p1.closed_raw[k].size()) +
                                                                                      " raw bytes) but only " + std::to_string(p.closed_raw[k].size()) + " raw bytes reached the output");
                        V("I15/unreported-loss", "rotate_output returned normally although " + mo.name + " lost bytes (" + std::to_string(p.closed_raw[k].size()) + " bytes on the medium, " +
                                                     std::to_string(p1.closed_raw[k].size()) + " in the fault-free run) and no exception had been delivered");
                        // no call reported anything: for the application this output was finished normally, so it has to be a document
                        {
                            std::string plain, err;
                            bool okd = true;
                            if (p.plan.sw.compression == 1) okd = model::gunzip_exact(p.closed_raw[k], plain, err);
                            else if (p.plan.sw.compression == 2) okd = model::unxz_exact(p.closed_raw[k], plain, err);
                            else plain = p.closed_raw[k];
                            if (okd && !plain.empty()) { try { ref::Interp::file(plain); } catch (std::exception& e) { okd = false; err = e.what(); } }
                            if (!okd) {
                                std::string d = mo.name + " was closed by a rotate_output that returned normally, no call had thrown, and it is not a valid C-DNS file: " + err;
                                cx.violation("C02", "C02/I02/finished-output-invalid-although-nothing-was-reported", d);
                                cx.violation("C13", "C13/I12/closed-output-not-a-complete-file/nothing-reported", d);
                            }
                        }
                    } else {
                        cx.ctr->add("probe.fault_absorbed_without_loss");
                    }
                    cx.nontrivial = true;
                }
            }
        }
    }
    bool fired = armed && !F.wfaults.empty() && F.wfaults[0].fired > 0;
    if (fired) cx.ctr->add("probe.fault_fired_in_run");
    if (first_exc_op >= 0) {
        cx.nontrivial = true;
        cx.ctr->add("probe.exception_delivered");
        if (p.plan.ops[first_exc_op].kind == ppl::O_ROTATE) cx.ctr->add("probe.first_exception_from_rotate");
        if (!fired) {
            // nothing was injected yet this call threw: a fault-free call failing is not what C16 is about, but it is wrong
            V("I16/exception-without-fault", std::string("op ") + std::to_string(first_exc_op) + " threw '" + first_exc_what + "' before any fault fired");
        }
        // (V1) the failed block's records are still buffered
        size_t q = p.ex->get_block_qr_count(), a = p.ex->get_block_aec_count(), m = p.ex->get_block_mm_count();
        if (q != p.M.cur.qr.size() || a != p.M.cur.aec.size() || m != p.M.cur.mm.size())
            V("I16/pending-not-buffered", "after the exception ('" + first_exc_what + "') the exporter holds " + std::to_string(q) + "/" + std::to_string(a) + "/" + std::to_string(m) +
                                              " items, the model's pending block " + std::to_string(p.M.cur.qr.size()) + "/" + std::to_string(p.M.cur.aec.size()) + "/" + std::to_string(p.M.cur.mm.size()));
        // C12 under a write fault: a failed block write must not count as a written block
        {
            bool export_done = p.plan.ops[first_exc_op].kind == ppl::O_ROTATE && p.plan.ops[first_exc_op].export_ && p.ex->get_block_item_count() == 0;
            uint64_t reported = p.ex->get_blocks_written_count();
            // after a rotation that threw, the counter may legitimately have been reset for the new output
            bool ok_count = reported == p.M.blocks_written || (p.plan.ops[first_exc_op].kind == ppl::O_ROTATE && reported == 0);
            if (!export_done && !ok_count)
                cx.violation("C12", "C12/I08/blocks-written-counter-after-failed-write", "after the failed call ('" + first_exc_what + "') the exporter reports " + std::to_string(reported) +
                                                                                            " blocks written to this output, " + std::to_string(p.M.blocks_written) + " were");
        }
        // Branch (one scenario in two, when the throwing call was a rotate_output that had already switched outputs): the application
        // does not rotate again but carries on with the output the failing rotation opened — it is "already in use", as the library
        // puts it. That output is an output like any other: what is written to it must make one complete, self-contained file.
        if (p.plan.ops[first_exc_op].kind == ppl::O_ROTATE && (mix64(cx.seed, 4243) & 1)) {
            std::string open_path;
            unsigned open_writing = 0;
            for (auto& kv : F.open_files) if (kv.second.writing) { open_writing++; open_path = kv.second.path; }
            if (open_writing == 1 && open_path != fault_dest) {
                cx.tag("continues-on-switched-output");
                cx.ctr->add("probe.continued_on_output_opened_by_failing_rotation");
                model::MBlock pending = p.M.cur;
                size_t expect_items = pending.items() + 1;
                gen::RecGen g(p.plan.sw, mix64(cx.seed, 4244));
                CDNS::GenericQueryResponse rec = g.qr(p.cur_tps());
                rec.asn = std::string("after-failed-rotation");
                std::string why;
                try {
                    p.ex->buffer_qr(rec);
                    if (p.ex->get_block_item_count() > 0) p.ex->write_block();   // (the buffer call may have flushed by itself)
                    if (p.plan.sw.fd_output) p.ex->rotate_output(F.make_fd("recafter"), false); else p.ex->rotate_output(std::string("/sim/recafter"), false);
                } catch (std::exception& e) { why = std::string("a call on the healthy output threw: ") + e.what(); }
                std::string raw;
                if (open_path.compare(0, 3, "fd:") == 0) { auto ino = F.fd_inode(open_path.substr(3)); raw = ino ? ino->data : ""; }
                else {
                    std::string fin = open_path.size() > 5 && open_path.compare(open_path.size() - 5, 5, ".part") == 0 ? open_path.substr(0, open_path.size() - 5) : open_path;
                    raw = F.exists(fin) ? F.get(fin) : (F.exists(open_path) ? F.get(open_path) : "");
                }
                std::string plain, err;
                bool dec = true;
                if (why.empty()) {
                    if (p.plan.sw.compression == 1) dec = model::gunzip_exact(raw, plain, err); else if (p.plan.sw.compression == 2) dec = model::unxz_exact(raw, plain, err); else plain = raw;
                    if (!dec) why = "not one complete compressed stream: " + err;
                }
                if (why.empty()) {
                    try {
                        ref::RFile rf = ref::Interp::file(plain);
                        size_t items = 0;
                        for (auto& b : rf.blocks) items += b.qr.size() + b.mm.size() + b.aec.size();
                        // (address events aggregate by key: count distinct entries the model holds)
                        size_t want = pending.qr.size() + pending.mm.size() + pending.aec.size() + 1;
                        (void)expect_items;
                        if (items != want) why = "holds " + std::to_string(items) + " items, " + std::to_string(want) + " were buffered (the failed block's records and one more)";
                    } catch (std::exception& e) { why = std::string("not a valid C-DNS file: ") + e.what(); }
                }
                if (why.empty()) {
                    model::VFile vfr = model::view_bytes(plain);
                    if (!vfr.opened) cx.violation("C09", "C09/I25/preamble-unreadable-in-output-after-write-fault", open_path + " (opened by the failing rotate_output, then used): " + vfr.error_type + ": " + vfr.error);
                    cx.ctr->add("probe.output_opened_by_failing_rotation_valid");
                } else {
                    std::string d = "the output the failing rotate_output had switched to (" + open_path + ") was used further and closed: " + why;
                    V("I16/output-opened-by-failing-rotation-invalid", d);
                    cx.violation("C13", "C13/I12/output-after-write-fault-not-self-contained", d);
                    cx.violation("C02", "C02/I02/output-after-write-fault-invalid", d);
                    cx.violation("C09", "C09/I25/preamble-unreadable-in-output-after-write-fault", d);
                    if (!p.plan.sw.fd_output) cx.violation("C15", "C15/I14/invalid-file-under-final-name", d);
                    if (p.plan.sw.compression) cx.violation("C14", "C14/I13/compressed-output-after-write-fault-differs", d);
                }
                cx.log.ev("DESTROY");
                try { p.ex.reset(); } catch (...) {}
                F.close_all_leaked();
                F.wfaults.clear();
                F.watcher = nullptr; F.log = nullptr;
                cx.state_key = std::string("continue") + (p.plan.sw.fd_output ? "d" : "n") + std::to_string(p.plan.sw.compression) + ",";
                return;
            }
        }
        // (V2) rotation to a healthy destination returns normally within two attempts
        bool rotated = false;
        std::string rec_name;
        int attempts = 0;
        std::string last_err;
        for (; attempts < 2 && !rotated; attempts++) {
            std::string base = "/sim/rec" + std::to_string(attempts);
            try {
                if (p.plan.sw.fd_output) {
                    int fd = F.make_fd("rec" + std::to_string(attempts));
                    rec_name = "fd:rec" + std::to_string(attempts);
                    p.ex->rotate_output(fd, false);
                } else {
                    rec_name = base + p.ext;
                    p.ex->rotate_output(base, false);
                }
                rotated = true;
            } catch (std::exception& e) {
                last_err = e.what();
                cx.log.ev(std::string("RECOVERY-ROTATE-THREW ") + e.what());
                cx.ctr->add("probe.recovery_rotate_threw");
            }
        }
        if (!rotated) {
            cx.tag(p.plan.sw.fd_output ? "kind-fd" : "kind-name");
            V("I16/rotation-does-not-recover", "two consecutive rotate_output calls to healthy destinations threw ('" + last_err + "')");
        } else {
            cx.ctr->add("probe.recovery_rotation_ok");
            // (V3) a following write_block() produces a complete valid file with the failed block's records
            model::MBlock pending = p.M.cur;
            bool ok = true;
            size_t w = 0;
            try {
                w = p.ex->write_block();
            } catch (std::exception& e) {
                V("I16/write-after-recovery-throws", std::string("write_block() on the healthy destination threw: ") + e.what());
                ok = false;
            }
            if (ok && pending.items() > 0 && w == 0) { V("I16/recovered-block-not-written", "write_block() after recovery returned 0 although records were pending"); ok = false; }
            size_t close_ret = 0;
            if (ok) {
                try {
                    if (p.plan.sw.fd_output) { int fd = F.make_fd("recend"); close_ret = p.ex->rotate_output(fd, false); }
                    else close_ret = p.ex->rotate_output(std::string("/sim/recend"), false);
                } catch (std::exception& e) {
                    V("I16/close-of-recovery-output-throws", std::string("rotate_output closing the healthy output threw: ") + e.what());
                    ok = false;
                }
            }
            // a recovery attempt that threw may still have switched to its destination (rotate_output completes the switch before it
            // reports): no block was ever written to that output, so it must have received no data at all
            if (ok && attempts == 2) {
                std::string raw0;
                bool have = false;
                if (p.plan.sw.fd_output) { auto ino = F.fd_inode("rec0"); if (ino) { raw0 = ino->data; have = ino->opens == 0; } }
                else if (F.exists(std::string("/sim/rec0") + p.ext)) { raw0 = F.get(std::string("/sim/rec0") + p.ext); have = true; }
                if (have) {
                    std::string plain0, err0;
                    bool dec0 = true;
                    if (p.plan.sw.compression == 1) dec0 = model::gunzip_exact(raw0, plain0, err0);
                    else if (p.plan.sw.compression == 2) dec0 = model::unxz_exact(raw0, plain0, err0);
                    else plain0 = raw0;
                    if (!dec0 || !plain0.empty()) {
                        std::string d = "the destination of the first (throwing) recovery rotate_output holds " + std::to_string(dec0 ? plain0.size() : raw0.size()) + " bytes (" + hex(dec0 ? plain0 : raw0, 16) + ") although no block was written to it";
                        V("I16/data-in-output-without-blocks", d);
                        cx.violation("C02", "C02/I03/nonempty-without-blocks-after-write-fault", d);
                        cx.violation("C13", "C13/I12/output-after-write-fault-not-self-contained", d);
                        cx.violation("C10", "C10/I17/byte-count-after-write-fault", d + " (the calls since it was opened returned 0 bytes)");
                        if (p.plan.sw.compression) cx.violation("C14", "C14/I13/compressed-output-after-write-fault-differs", d);
                    } else cx.ctr->add("probe.intermediate_recovery_output_empty");
                }
            }
            if (ok) {
                std::string raw;
                if (p.plan.sw.fd_output) { auto ino = F.fd_inode(rec_name.substr(3)); raw = ino ? ino->data : ""; }
                else raw = F.exists(rec_name) ? F.get(rec_name) : "";
                std::string plain, err;
                bool dec = true;
                if (p.plan.sw.compression == 1) dec = model::gunzip_exact(raw, plain, err);
                else if (p.plan.sw.compression == 2) dec = model::unxz_exact(raw, plain, err);
                else plain = raw;
                // the recovery output is an output like any other: C02 / C13 / C10 hold for it too (API history with an exception in it)
                if (dec && !plain.empty()) {
                    model::VFile vfr = model::view_bytes(plain);
                    if (!vfr.opened) cx.violation("C09", "C09/I25/preamble-unreadable-in-output-after-write-fault", rec_name + ": the output opened by the recovering rotate_output has no readable file header and preamble: " + vfr.error_type + ": " + vfr.error);
                }
                auto also = [&](const std::string& d) {
                    cx.violation("C02", "C02/I02/output-after-write-fault-invalid", d);
                    cx.violation("C13", "C13/I12/output-after-write-fault-not-self-contained", d);
                    if (p.plan.sw.compression) cx.violation("C14", "C14/I13/compressed-output-after-write-fault-differs", d);
                };
                if (dec && w + close_ret != plain.size())
                    cx.violation("C10", "C10/I17/byte-count-after-write-fault", rec_name + ": write_block + rotate_output returned " + std::to_string(w + close_ret) + " bytes for an output of " + std::to_string(plain.size()) + " uncompressed bytes");
                if (!dec) { V("I16/recovered-file-invalid", rec_name + " is not one complete compressed stream: " + err); also(rec_name + ": " + err); }
                else if (pending.items() == 0) {
                    if (!plain.empty()) V("I16/recovered-file-invalid", rec_name + " holds " + std::to_string(plain.size()) + " bytes although nothing was pending");
                    else cx.ctr->add("probe.recovery_with_nothing_pending");
                } else {
                    try {
                        ref::RFile rf = ref::Interp::file(plain);
                        if (rf.blocks.size() != 1) V("I16/recovered-file-content", rec_name + " has " + std::to_string(rf.blocks.size()) + " blocks, expected exactly the failed block");
                        else {
                            // compare with the pending block through the pipeline's own comparison (violations it files are C01-tagged;
                            // re-tag the first one as C16)
                            RunCtx tmp;
                            tmp.ctr = &scratch_ctr;
                            size_t before = cx.viol.size();
                            model::MOutput mo;
                            mo.name = rec_name;
                            mo.blocks.push_back(pending);
                            p.checks_off = false;
                            p.compare_blocks(mo, rf);
                            p.checks_off = true;
                            if (cx.viol.size() > before) {
                                std::string d = cx.viol[before].sig + ": " + cx.viol[before].detail;
                                cx.viol.resize(before);
                                V("I16/recovered-file-content", d);
                            } else cx.ctr->add("probe.recovery_completed_with_records");
                        }
                    } catch (std::exception& e) {
                        V("I16/recovered-file-invalid", rec_name + ": " + e.what());
                        also(rec_name + ": " + e.what());
                    }
                }
            }
        }
    } else if (fired) {
        cx.ctr->add("probe.fault_fired_no_exception");
    }
    // C15 under write faults, exception path: if the faulted output is visible under its final name now, it must be a complete
    // document (or an intact older file) — never the truncated output
    if (fired && first_exc_op >= 0 && !p.plan.sw.fd_output && fault_dest.size() > 5) {
        std::string name = fault_dest.substr(0, fault_dest.size() - 5);
        if (F.exists(name)) {
            const std::string& raw = F.get(name);
            bool older = false;
            for (auto& of : p.old_files) if (of == name && fnv1a(raw) == p.old_hash[of]) older = true;
            std::string plain, err;
            bool ok = true;
            if (!older) {
                if (p.plan.sw.compression == 1) ok = model::gunzip_exact(raw, plain, err);
                else if (p.plan.sw.compression == 2) ok = model::unxz_exact(raw, plain, err);
                else plain = raw;
                if (ok && !plain.empty()) { try { ref::Interp::file(plain); } catch (std::exception& e) { ok = false; err = e.what(); } }
                if (!ok)
                    cx.violation("C15", std::string("C15/I14/incomplete-file-under-final-name/") + (p.plan.sw.compression ? "compressed" : "plain"),
                                 name + " is visible under its final name but is not a complete output (" + err + ") [fault: " + kind_name(fs.kind) + (fs.persist ? " persistent" : " once") + " at write #" +
                                     std::to_string(fs.j) + " of op " + std::to_string(fs.op) + "]");
            }
            cx.ctr->add("probe.faulted_output_name_checked");
        }
    }
    // destruction is outside the guarantee
    cx.log.ev("DESTROY");
    try { p.ex.reset(); } catch (...) {}
    F.close_all_leaked();
    F.watcher = nullptr;
    F.log = nullptr;
    F.wfaults.clear();
    cx.state_key = std::string(kind_name(fs.kind)) + (fs.persist ? "P" : "1") + (p.plan.sw.fd_output ? "d" : "n") + std::to_string(p.plan.sw.compression) + ppl::OPN[p.plan.ops[fs.op].kind] +
                   (first_exc_op >= 0 ? "X" : "-") + ",";
}
