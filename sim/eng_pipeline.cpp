// Pipeline engine (fault-free): serves C01 C02 C04 C09 C10 C11 C12 C13 C14(b) C15 C17(a).
#include "pipeline.h"

using namespace sim;
using ppl::Pipeline;

void sim::engine_pipeline(RunCtx& cx) {
    Pipeline p(cx);
    try {
        p.run();
    } catch (Failure&) {
        throw;
    } catch (std::exception& e) {
        cx.violation(cx.prop, cx.prop + "/unexpected-exception", std::string("fault-free pipeline run threw: ") + e.what());
        p.ex.reset();
    }
    simfs::fs().watcher = nullptr;
    simfs::fs().log = nullptr;
}
