// Common utilities for the c-dns deterministic simulator: PRNG, event log, hashing, JSON output.
// Nothing in here reads a clock or any other source of nondeterminism.
#pragma once
#include <cstdint>
#include <cstdio>
#include <cstring>
#include <string>
#include <vector>
#include <map>
#include <set>
#include <functional>
#include <stdexcept>
#include <sstream>

namespace sim {

// ---------------------------------------------------------------------------------------------
// SplitMix64: the only PRNG. Every choice of a run is drawn from one of these, seeded from
// mix(VERIF_SEED, property/engine tag, run index [, op index]).
struct Rng {
    uint64_t s;
    explicit Rng(uint64_t seed = 0) : s(seed) {}
    uint64_t next() {
        uint64_t z = (s += 0x9E3779B97F4A7C15ULL);
        z = (z ^ (z >> 30)) * 0xBF58476D1CE4E5B9ULL;
        z = (z ^ (z >> 27)) * 0x94D049BB133111EBULL;
        return z ^ (z >> 31);
    }
    // uniform in [0,n) (n>0); modulo bias is irrelevant here
    uint64_t below(uint64_t n) { return n ? next() % n : 0; }
    // uniform in [lo,hi]
    uint64_t range(uint64_t lo, uint64_t hi) { return lo + below(hi - lo + 1); }
    bool chance(unsigned num, unsigned den) { return below(den) < num; }
    bool coin() { return next() & 1; }
    template <class T> const T& pick(const std::vector<T>& v) { return v[below(v.size())]; }
    template <class T, size_t N> const T& pick(const T (&v)[N]) { return v[below(N)]; }
};

inline uint64_t mix64(uint64_t a, uint64_t b) {
    Rng r(a ^ (b * 0xD6E8FEB86659FD93ULL + 0x2545F4914F6CDD1DULL));
    r.next();
    return r.next() ^ b;
}
inline uint64_t mix_str(uint64_t a, const char* s) {
    uint64_t h = 1469598103934665603ULL;
    for (; *s; ++s) { h ^= (unsigned char)*s; h *= 1099511628211ULL; }
    return mix64(a, h);
}

// ---------------------------------------------------------------------------------------------
inline uint64_t fnv1a(const void* p, size_t n, uint64_t h = 1469598103934665603ULL) {
    const unsigned char* c = static_cast<const unsigned char*>(p);
    for (size_t i = 0; i < n; i++) { h ^= c[i]; h *= 1099511628211ULL; }
    return h;
}
inline uint64_t fnv1a(const std::string& s, uint64_t h = 1469598103934665603ULL) {
    return fnv1a(s.data(), s.size(), h);
}

inline std::string hex(const std::string& s, size_t maxbytes = (size_t)-1) {
    static const char* d = "0123456789abcdef";
    std::string r;
    size_t n = s.size() < maxbytes ? s.size() : maxbytes;
    r.reserve(2 * n + 3);
    for (size_t i = 0; i < n; i++) { r.push_back(d[(unsigned char)s[i] >> 4]); r.push_back(d[s[i] & 15]); }
    if (n < s.size()) r += "..";
    return r;
}
inline std::string unhex(const std::string& h) {
    std::string r;
    auto v = [](char c) { return c <= '9' ? c - '0' : (c | 32) - 'a' + 10; };
    for (size_t i = 0; i + 1 < h.size(); i += 2) r.push_back((char)(v(h[i]) << 4 | v(h[i + 1])));
    return r;
}

inline std::string json_escape(const std::string& s) {
    std::string r;
    for (unsigned char c : s) {
        if (c == '"') r += "\\\"";
        else if (c == '\\') r += "\\\\";
        else if (c == '\n') r += "\\n";
        else if (c < 0x20 || c >= 0x7f) { char b[8]; snprintf(b, sizeof b, "\\u%04x", c); r += b; }
        else r.push_back((char)c);
    }
    return r;
}

// ---------------------------------------------------------------------------------------------
// Event log of one run. Its running FNV-1a hash is the run's fingerprint; the text is kept only
// when `keep_text` is set (replay / sample output). Logging never draws from a PRNG.
struct EventLog {
    uint64_t hash = 1469598103934665603ULL;
    uint64_t count = 0;
    bool keep_text = false;
    std::vector<std::string> text;
    void reset(bool keep) { hash = 1469598103934665603ULL; count = 0; keep_text = keep; text.clear(); }
    void ev(const std::string& s) {
        hash = fnv1a(s, hash);
        hash = fnv1a("\n", 1, hash);
        count++;
        if (keep_text && text.size() < 4000) text.push_back(s);
    }
};

// ---------------------------------------------------------------------------------------------
// Counters (probes, fault counts, ...) accumulated by a worker and reported in its STATS line.
struct Counters {
    std::map<std::string, uint64_t> c;
    void add(const std::string& k, uint64_t n = 1) { c[k] += n; }
    void max(const std::string& k, uint64_t v) { if (c[k] < v) c[k] = v; }
    std::string json() const {
        std::string r = "{";
        bool first = true;
        for (auto& kv : c) {
            if (!first) r += ",";
            first = false;
            r += "\"" + json_escape(kv.first) + "\":" + std::to_string(kv.second);
        }
        return r + "}";
    }
};

// A violation found in a run. `sig` = "<prop>/<invariant>/<class>/<features>", `detail` free text.
struct Violation {
    std::string prop;
    std::string sig;
    std::string detail;
};

struct Failure : std::runtime_error {  // harness-side inconsistency (never a property violation)
    explicit Failure(const std::string& m) : std::runtime_error(m) {}
};

template <class T> inline std::string str(const T& v) { std::ostringstream o; o << v; return o.str(); }

}  // namespace sim
