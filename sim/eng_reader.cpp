// Read-side engines:
//   eof      (C05) end of input injected at enumerated byte offsets of valid files, all stream kinds
//   decode   (C07) every well-formed item from a foreign producer, placed around the decoder's window boundaries
//   reencode (C08) semantics-preserving rewrites of valid files by a foreign producer
#include "pipeline.h"
#include "simstream.h"
#include <fstream>
#include <new>

using namespace sim;

namespace {

// The library leaves CdnsDecoder::m_buffer uninitialised. Readers are constructed inside this arena, which is
// pre-filled with bytes of a valid block, so "stale buffer contents" are deterministic and look like real data.
struct Arena {
    alignas(64) unsigned char mem[sizeof(CDNS::CdnsReader) + 256];
    void fill(const std::string& pattern) {
        if (pattern.empty()) { memset(mem, 0x00, sizeof mem); return; }
        for (size_t i = 0; i < sizeof mem; i++) mem[i] = (unsigned char)pattern[i % pattern.size()];
    }
};
static Arena g_arena;
static Arena g_arena2;

struct ReadResult {
    std::vector<std::string> blocks;   // canonical dump per block returned
    std::string end_type;               // "eof" (clean end) | exception class name
    std::string end_what;
    std::vector<std::string> retries;   // outcome of further read_block() calls after the reader had ended with an exception
};

std::string dump_vblock(const model::VBlock& b) {
    std::string s = "bp=" + std::to_string(b.bp_index) + "|";
    for (auto& r : b.qr) s += "Q{" + ref::dump(r) + "}";
    for (auto& kv : b.aec) s += "A{" + kv.first + "#" + std::to_string(kv.second) + "}";
    for (auto& r : b.mm) s += "M{" + ref::dump(r) + "}";
    s += b.has_stats ? "S{" + ref::dump(b.stats) + "}" : "";
    return s;
}

// read everything a stream offers through a CdnsReader living in the pre-filled arena
ReadResult read_all(std::istream& is, const std::string& arena_pattern, CDNS::FilePreamble* pre = nullptr) {
    ReadResult r;
    g_arena.fill(arena_pattern);
    CDNS::CdnsReader* rd = nullptr;
    try {
        rd = new (g_arena.mem) CDNS::CdnsReader(is);
        if (pre) *pre = rd->m_file_preamble;
        for (;;) {
            bool eof = false;
            CDNS::CdnsBlockRead b = rd->read_block(eof);
            if (eof) { r.end_type = "eof"; break; }
            model::VBlock v = model::view_block(b);
            r.blocks.push_back(dump_vblock(v));
            if (r.blocks.size() > 100000) { r.end_type = "runaway"; break; }
        }
    } catch (CDNS::CdnsDecoderEnd& e) { r.end_type = "CdnsDecoderEnd"; r.end_what = e.what(); }
    catch (CDNS::CdnsDecoderException& e) { r.end_type = "CdnsDecoderException"; r.end_what = e.what(); }
    catch (std::exception& e) { r.end_type = "std::exception"; r.end_what = e.what(); }
    // "once the bytes are exhausted the decoder reports end-of-input instead of returning values": also when asked again
    if (rd && r.end_type != "eof" && r.end_type != "runaway") {
        for (int k = 0; k < 3; k++) {
            try {
                bool eof = false;
                CDNS::CdnsBlockRead b = rd->read_block(eof);
                r.retries.push_back(eof ? "eof" : "block");
            } catch (CDNS::CdnsDecoderEnd&) { r.retries.push_back("CdnsDecoderEnd"); }
            catch (CDNS::CdnsDecoderException&) { r.retries.push_back("CdnsDecoderException"); }
            catch (std::exception&) { r.retries.push_back("std::exception"); }
        }
    }
    if (rd) rd->~CdnsReader();
    return r;
}

// grow/shrink one byte string of a valid file so that the preferred re-encoding has exactly `target` bytes
bool resize_file(const std::string& file, size_t target, std::string& out) {
    ref::Node root;
    try { root = ref::Decoder(file).parse_all(); } catch (...) { return false; }
    // find a name-rdata / ip entry or mm payload to stretch: first byte string inside the block tables of the last block
    std::function<ref::Node*(ref::Node&)> find = [&](ref::Node& n) -> ref::Node* {
        if (n.is_bytes()) return &n;
        for (size_t i = n.kids.size(); i > 0; i--) { if (ref::Node* f = find(n.kids[i - 1])) return f; }
        return nullptr;
    };
    if (root.kids.size() != 3 || root.kids[2].kids.empty()) return false;
    ref::Node* victim = find(root.kids[2].kids.back());
    if (!victim) return false;
    for (int iter = 0; iter < 6; iter++) {
        std::string e = ref::encode_preferred(root);
        if (e.size() == target) { out = e; return true; }
        long delta = (long)target - (long)e.size();
        long nl = (long)victim->bytes.size() + delta;
        if (nl < 0) return false;
        victim->bytes.resize((size_t)nl, (char)0x5a);
    }
    return false;
}

}  // namespace

// =================================================================================================
// C05
void sim::engine_eof(RunCtx& cx) {
    Rng r(mix_str(cx.seed, "eof"));
    // ---- the file ------------------------------------------------------------------------------
    std::string file;
    unsigned kind_of_file = (unsigned)r.below(10);
    std::vector<std::string> files = ppl::produce_files(mix_str(cx.seed, "file"), kind_of_file < 3 ? "C14" : "C01");
    for (auto& f : files) if (f.size() > file.size()) file = f;
    if (file.empty()) { cx.n_ops = 0; return; }
    static const size_t W = 65535;
    if (kind_of_file < 5) {
        // sizes at and around multiples of the decoder window
        size_t k = 1 + r.below(3);
        long d = (long)r.below(3) - 1;
        std::string resized;
        if (resize_file(file, k * W + d, resized)) { file = resized; cx.tag("size=k*65535" + std::string(d < 0 ? "-1" : d > 0 ? "+1" : "")); cx.ctr->add("probe.file_size_at_window_multiple"); }
    }
    ref::RFile rf;
    try { rf = ref::Interp::file(file); } catch (std::exception& e) { cx.ctr->add("files_rejected_by_reference"); cx.n_ops = 0; return; }
    // full-file reading (ground truth from the library itself on the intact file, cross-checked by block count)
    std::istringstream full(file);
    ReadResult whole = read_all(full, std::string());
    if (whole.end_type != "eof" || whole.blocks.size() != rf.blocks.size()) {
        cx.violation("C05", "C05/I22/intact-file-not-read", "intact file of " + std::to_string(file.size()) + " bytes: reader ended with " + whole.end_type + " " + whole.end_what +
                                                             " after " + std::to_string(whole.blocks.size()) + "/" + std::to_string(rf.blocks.size()) + " blocks");
        cx.n_ops = 0;
        return;
    }
    // ---- cut points ("ops" of this plan) ---------------------------------------------------------
    std::vector<size_t> cuts;
    if (file.size() <= 8192 && cx.tier == "thorough") for (size_t n = 0; n <= file.size(); n++) cuts.push_back(n);
    else {
        std::set<size_t> s;
        auto around = [&](size_t c, size_t w) { for (size_t n = c > w ? c - w : 0; n <= c + w && n <= file.size(); n++) s.insert(n); };
        size_t w = cx.tier == "thorough" ? 24 : 6;
        around(0, w);
        around(file.size(), w);
        for (size_t m = W; m <= file.size() + W; m += W) around(m, w);
        for (auto& b : rf.blocks) { around(b.off, w / 2 + 1); around(b.end, w / 2 + 1); }
        around(rf.blocks_array_off, w);
        size_t extra = cx.tier == "thorough" ? 400 : 60;
        for (size_t i = 0; i < extra; i++) s.insert((size_t)r.below(file.size() + 1));
        cuts.assign(s.begin(), s.end());
    }
    cx.n_ops = (unsigned)cuts.size();
    cx.log.ev("FILE " + std::to_string(file.size()) + " " + std::to_string(fnv1a(file)));
    std::string pattern = file.substr(rf.blocks[0].off, rf.blocks[0].end - rf.blocks[0].off);
    if (cx.describe) cx.description = "file of " + std::to_string(file.size()) + " bytes, " + std::to_string(rf.blocks.size()) + " blocks, block array " +
                                      (rf.blocks_indef ? "indefinite" : "definite") + "; cut points:";
    simfs::FS& F = simfs::fs();
    for (unsigned i = 0; i < cuts.size(); i++) {
        if (!cx.kept(i)) continue;
        size_t n = cuts[i];
        unsigned kind = (unsigned)(mix64(cx.seed, i) % 7);
        static const char* KN[] = {"stringstream", "simstream-chunked", "ifstream-eof-fault", "ifstream-short-file", "ifstream-unopened", "ifstream-eio", "stringstream-failbit-set"};
        if (cx.describe) cx.description += " " + std::to_string(n) + "/" + KN[kind];
        cx.log.ev("CUT " + std::to_string(n) + " " + KN[kind]);
        size_t expect_blocks = 0;
        for (auto& b : rf.blocks) if (b.end <= n) expect_blocks++;
        ReadResult got;
        bool unreadable = false;
        std::string prefix = file.substr(0, n);
        F.reset();
        F.ctr = cx.ctr;
        switch (kind) {
            case 0: { std::istringstream is(prefix); got = read_all(is, pattern); break; }
            case 1: {
                SimStreamBuf sb(file, n, (size_t)(1 + mix64(cx.seed, i + 1000) % 5000), mix64(cx.seed, i));
                std::istream is(&sb);
                got = read_all(is, pattern);
                break;
            }
            case 2: {
                F.put("/sim/in", file);
                F.default_rpolicy.eof_at = (long)n;
                F.default_rpolicy.max_chunk = 1 + (size_t)(mix64(cx.seed, i + 2000) % 70000);
                F.default_rpolicy.seed = mix64(cx.seed, i);
                F.default_rpolicy.eintr_pm = 50;
                std::ifstream is("/sim/in", std::ifstream::binary);
                got = read_all(is, pattern);
                break;
            }
            case 3: {
                F.put("/sim/in", prefix);
                std::ifstream is("/sim/in", std::ifstream::binary);
                got = read_all(is, pattern);
                break;
            }
            case 4: {
                std::ifstream is;   // never opened
                expect_blocks = 0;
                unreadable = true;
                got = read_all(is, pattern);
                break;
            }
            case 6: {
                // the bytes are there, but the stream is in a failed state before the reader ever sees it: it cannot be read
                std::istringstream is(prefix);
                is.setstate(std::ios_base::failbit);
                expect_blocks = 0;
                unreadable = true;
                got = read_all(is, pattern);
                break;
            }
            default: {
                F.put("/sim/in", file);
                F.default_rpolicy.eio_at = (long)n;
                F.default_rpolicy.seed = mix64(cx.seed, i);
                std::ifstream is("/sim/in", std::ifstream::binary);
                unreadable = true;
                got = read_all(is, pattern);
                break;
            }
        }
        F.reset();
        cx.ctr->add(std::string("stream_kind.") + KN[kind]);
        if (n % W == 0) cx.ctr->add("probe.cut_at_exact_window_multiple");
        for (auto& b : rf.blocks) if (b.end == n) cx.ctr->add("probe.cut_at_block_end");
        std::string where = "cut at " + std::to_string(n) + " of " + std::to_string(file.size()) + " bytes via " + KN[kind];
        std::string feat = n == 0 ? "/empty-input" : (n % W == 0 ? "/cut-at-window-multiple" : "");
        if (kind == 4) feat = "/unopened-stream";
        if (kind == 6) feat = "/stream-in-failed-state";
        if (got.blocks.size() > expect_blocks)
            cx.violation("C05", "C05/I22/fabricated-block" + feat, where + ": reader returned " + std::to_string(got.blocks.size()) + " blocks, only " + std::to_string(expect_blocks) +
                                                                      " are wholly inside the prefix (ended with " + got.end_type + ")");
        else if (got.blocks.size() < expect_blocks && kind == 5) {
            // a read error makes libstdc++ discard everything the failing istream::read() had already fetched (gcount()==0),
            // so blocks lying before the error offset but inside the same refill are legitimately not delivered; what was
            // delivered must still be a true prefix (checked below) and the reader must end with an error
            cx.ctr->add("probe.read_error_lost_buffered_blocks");
            for (size_t k = 0; k < got.blocks.size(); k++)
                if (got.blocks[k] != whole.blocks[k]) { cx.violation("C05", "C05/I22/block-differs-from-full-file" + feat, where + ": block " + std::to_string(k) + " differs"); break; }
        } else if (got.blocks.size() < expect_blocks)
            cx.violation("C05", "C05/I22/complete-block-not-returned" + feat, where + ": reader returned " + std::to_string(got.blocks.size()) + " of " + std::to_string(expect_blocks) +
                                                                                 " complete blocks (ended with " + got.end_type + ": " + got.end_what + ")");
        else {
            for (size_t k = 0; k < got.blocks.size(); k++)
                if (got.blocks[k] != whole.blocks[k]) {
                    cx.violation("C05", "C05/I22/block-differs-from-full-file" + feat, where + ": block " + std::to_string(k) + " differs from the same block of the intact file");
                    break;
                }
        }
        bool intact = n == file.size() && kind != 4 && kind != 5 && kind != 6;
        if (kind == 5 && n >= file.size() && got.end_type == "eof" && got.blocks.size() == rf.blocks.size()) {
            // the error position lies behind the data and the reader never had to read that far
            cx.ctr->add("probe.read_error_position_never_reached");
        } else if (intact) {
            if (got.end_type != "eof") cx.violation("C05", "C05/I22/intact-file-not-read" + feat, where + ": ended with " + got.end_type + " " + got.end_what);
        } else if (got.end_type == "eof" || got.end_type == "runaway") {
            cx.violation("C05", "C05/I22/end-of-input-not-detected" + feat, where + ": reader reported a clean end of file (" + got.end_type + ")");
        } else if (unreadable) {
            // streams that cannot be read: any std::exception-derived error is a report
        } else if (got.end_type != "CdnsDecoderEnd") {
            cx.violation("C05", "C05/I22/wrong-error-for-truncation" + feat, where + ": ended with " + got.end_type + " '" + got.end_what + "' instead of the end-of-input error");
        }
        if (!intact) {
            for (size_t k = 0; k < got.retries.size(); k++) {
                const std::string& o = got.retries[k];
                if (o == "block") { cx.violation("C05", "C05/I22/block-returned-after-end-of-input" + feat, where + ": read_block() call " + std::to_string(k + 1) + " after the reader had ended with " + got.end_type + " returned a block"); break; }
                if (o == "eof") { cx.violation("C05", "C05/I22/clean-end-after-end-of-input" + feat, where + ": read_block() call " + std::to_string(k + 1) + " after the reader had ended with " + got.end_type + " reported a clean end of file"); break; }
                if (!unreadable && got.end_type == "CdnsDecoderEnd" && o != "CdnsDecoderEnd") { cx.violation("C05", "C05/I22/end-of-input-not-sticky" + feat, where + ": read_block() call " + std::to_string(k + 1) + " after CdnsDecoderEnd ended with " + o); break; }
            }
            if (!got.retries.empty()) cx.ctr->add("probe.reader_asked_again_after_end");
        }
        cx.nontrivial = true;
    }
    cx.state_key = std::to_string(file.size() / W) + (rf.blocks_indef ? "i" : "d") + std::to_string(rf.blocks.size() > 3 ? 3 : rf.blocks.size()) + ",";
}

// =================================================================================================
// C07
namespace {

struct Item {
    std::string enc;        // encoding of the item under test
    std::string what;       // description
    int op = 0;             // which read operation applies
    // ground truth
    uint64_t u = 0;
    int64_t i = 0;
    bool b = false;
    std::string s;
    bool indef = false;
    std::vector<uint64_t> arr;
    uint8_t peek = 0;
};
enum { R_UNSIGNED, R_NEGATIVE, R_INTEGER, R_BOOL, R_BYTES, R_TEXT, R_ARRAY_START, R_MAP_START, R_BREAK, R_ARRAY_CB, R_SKIP, R_PEEK, R_NOPS };
const char* RN[] = {"read_unsigned", "read_negative", "read_integer", "read_bool", "read_bytestring", "read_textstring", "read_array_start",
                    "read_map_start", "read_break", "read_array", "skip_item", "peek_type"};

Item make_item(Rng& r) {
    Item it;
    ref::Policy pol;
    pol.rng = Rng(r.next());
    pol.widen = 500;
    pol.indef = 400;
    it.op = (int)r.below(R_NOPS);
    auto enc = [&](const ref::Node& n) { std::string e; ref::encode_policy(n, pol, e, false); return e; };
    switch (it.op) {
        case R_UNSIGNED: {
            it.u = gen::uint_bits(r, 64) >> r.below(64);
            if (r.chance(1, 3)) it.u = r.pick(gen::EDGE64);
            it.enc = enc(ref::Node::uint_(it.u));
            break;
        }
        case R_NEGATIVE: {
            uint64_t n = (gen::uint_bits(r, 64) >> r.below(64)) & 0x7fffffffffffffffULL;   // value -1-n >= -2^63
            if (r.chance(1, 4)) n = 0x7fffffffffffffffULL;
            it.i = (int64_t)(-1 - (__int128)n);
            it.enc = enc(ref::Node::nint_(n));
            break;
        }
        case R_INTEGER: {
            bool neg = r.coin();
            uint64_t n = (gen::uint_bits(r, 64) >> r.below(64)) & 0x7fffffffffffffffULL;
            it.i = neg ? (int64_t)(-1 - (__int128)n) : (int64_t)n;
            it.enc = enc(neg ? ref::Node::nint_(n) : ref::Node::uint_(n));
            break;
        }
        case R_BOOL: it.b = r.coin(); it.enc = enc(ref::Node::bool_(it.b)); break;
        case R_BYTES: case R_TEXT: {
            size_t len = r.chance(1, 6) ? r.range(2040, 2060) : r.chance(1, 10) ? r.range(65500, 65600) : r.below(60);
            for (size_t k = 0; k < len; k++) it.s.push_back(it.op == R_BYTES ? (char)r.below(256) : (char)r.range(32, 126));
            ref::Node n = it.op == R_BYTES ? ref::Node::bytes_(it.s) : ref::Node::text_(it.s);
            it.enc = enc(n);
            it.indef = (uint8_t)it.enc[0] == (it.op == R_BYTES ? 0x5f : 0x7f);
            break;
        }
        case R_ARRAY_START: case R_MAP_START: {
            it.indef = r.chance(1, 3);
            it.u = it.indef ? 0 : (r.coin() ? r.below(30) : gen::uint_bits(r, 64));
            uint8_t major = it.op == R_ARRAY_START ? 4 : 5;
            if (it.indef) it.enc.push_back((char)(major << 5 | 31));
            else ref::put_head(it.enc, major, it.u, ref::pick_min_ai(pol, it.u));
            break;
        }
        case R_BREAK: it.enc = "\xff"; break;
        case R_ARRAY_CB: {
            ref::Node a = ref::Node::array_();
            size_t n = r.below(12);
            for (size_t k = 0; k < n; k++) { uint64_t v = gen::uint_bits(r, 64); it.arr.push_back(v); a.push(ref::Node::uint_(v)); }
            it.enc = enc(a);
            break;
        }
        case R_SKIP: {
            ref::Node v = ref::random_value(r, 0);
            if (r.chance(1, 8)) { for (int d = 0; d < 64; d++) { ref::Node o = ref::Node::array_(); o.push(v); v = o; } }   // nesting <= 64
            pol.indef = 500;
            it.enc = enc(v);
            it.what = "major " + std::to_string(v.major);
            break;
        }
        case R_PEEK: {
            ref::Node v = ref::random_value(r, 2);
            it.enc = r.chance(1, 8) ? std::string("\xff") : enc(v);
            uint8_t ib = (uint8_t)it.enc[0];
            it.peek = ib == 0xff ? 0xff : (ib & 0xe0);
            break;
        }
    }
    return it;
}

// the read operation an item was made for, with its ground truth
bool apply_item(CDNS::CdnsDecoder* dec, const Item& it, std::string& detail) {
    bool ok = true;
    switch (it.op) {
        case R_UNSIGNED: { uint64_t v = dec->read_unsigned(); ok = v == it.u; detail = std::to_string(v) + " != " + std::to_string(it.u); break; }
        case R_NEGATIVE: { int64_t v = dec->read_negative(); ok = v == it.i; detail = std::to_string(v) + " != " + std::to_string(it.i); break; }
        case R_INTEGER: { int64_t v = dec->read_integer(); ok = v == it.i; detail = std::to_string(v) + " != " + std::to_string(it.i); break; }
        case R_BOOL: { bool v = dec->read_bool(); ok = v == it.b; detail = "bool"; break; }
        case R_BYTES: { std::string v = dec->read_bytestring(); ok = v == it.s; detail = "byte string of " + std::to_string(v.size()) + " vs " + std::to_string(it.s.size()) + " bytes"; break; }
        case R_TEXT: { std::string v = dec->read_textstring(); ok = v == it.s; detail = "text string of " + std::to_string(v.size()) + " vs " + std::to_string(it.s.size()) + " bytes"; break; }
        case R_ARRAY_START: { bool ind = it.u & 1; /* the flag is an out-parameter: whatever it held before must not matter */ uint64_t v = dec->read_array_start(ind); ok = ind == it.indef && (ind || v == it.u); detail = "count " + std::to_string(v) + " indef " + std::to_string(ind); break; }
        case R_MAP_START: { bool ind = !(it.u & 1); uint64_t v = dec->read_map_start(ind); ok = ind == it.indef && (ind || v == it.u); detail = "count " + std::to_string(v) + " indef " + std::to_string(ind); break; }
        case R_BREAK: dec->read_break(); break;
        case R_ARRAY_CB: {
            std::vector<uint64_t> got;
            dec->read_array([&](CDNS::CdnsDecoder& d) { got.push_back(d.read_unsigned()); });
            ok = got == it.arr;
            detail = std::to_string(got.size()) + " elements vs " + std::to_string(it.arr.size());
            break;
        }
        case R_SKIP: dec->skip_item(); break;
        case R_PEEK: {
            CDNS::CborType t = dec->peek_type();
            ok = (uint8_t)t == it.peek;
            detail = "type " + std::to_string((unsigned)t) + " vs " + std::to_string((unsigned)it.peek);
            if (ok) { CDNS::CborType t2 = dec->peek_type(); ok = t2 == t; detail = "second peek differs"; }   // peeking consumes nothing
            break;
        }
    }
    return ok;
}

}  // namespace

void sim::engine_decode(RunCtx& cx) {
    static const size_t W = 65535;
    Rng r(mix_str(cx.seed, "decode"));
    Item it = make_item(r);
    // selftest canary: the foreign producer emits a byte string whose head claims one byte too many
    { static const bool canary = getenv("VERIF_CANARY") && !strcmp(getenv("VERIF_CANARY"), "producer-wrong-length");
      if (canary && it.op == R_BYTES && !it.indef && it.s.size() < 23 && !it.enc.empty() && ((uint8_t)it.enc[0] & 31) < 23) it.enc[0] = (char)((uint8_t)it.enc[0] + 1); }
    uint64_t sentinel = gen::uint_bits(r, 64);
    std::string sent_enc;
    ref::put_head(sent_enc, 0, sentinel);
    // positions of the item relative to the window boundaries = ops of the plan
    std::vector<size_t> pos;
    pos.push_back(0);
    for (long d = -10; d <= 10; d++) { pos.push_back((size_t)((long)W + d)); pos.push_back((size_t)((long)(2 * W) + d)); }
    cx.n_ops = (unsigned)pos.size();
    if (cx.describe) cx.description = std::string(RN[it.op]) + " on item " + hex(it.enc, 40) + " (" + std::to_string(it.enc.size()) + " bytes) followed by sentinel " + std::to_string(sentinel) + "; offsets:";
    cx.tag(RN[it.op]);
    cx.log.ev(std::string("ITEM ") + RN[it.op] + " " + std::to_string(it.enc.size()) + " " + std::to_string(fnv1a(it.enc)) + " sentinel " + std::to_string(sentinel));
    if (it.indef) cx.tag("indefinite");
    std::string feat = std::string("/") + RN[it.op] + (it.indef ? "/indefinite" : "");
    if (it.op == R_SKIP) {
        uint8_t ib = (uint8_t)it.enc[0];
        feat = std::string("/skip_item/major") + std::to_string(ib >> 5) + ((ib & 31) == 31 ? "/indefinite" : "");
    }
    for (unsigned i = 0; i < pos.size(); i++) {
        if (!cx.kept(i)) continue;
        size_t off = pos[i];
        // filler: [two 1-byte unsigned items if needed] + one definite byte string, together exactly `off` bytes long
        std::string buf;
        size_t fill_len = 0, lead = 0;
        bool have_filler = off > 0;
        if (have_filler) {
            for (lead = 0; lead <= 2; lead += 2) {
                size_t o = off - lead;
                size_t head = o - 1 < 24 ? 1 : o - 2 <= 0xff ? 2 : o - 3 <= 0xffff ? 3 : 5;
                fill_len = o - head;
                buf.assign(lead, '\0');
                ref::put_head(buf, 2, fill_len);
                if (buf.size() == lead + head) break;
            }
            if (lead > 2) continue;   // no filler shape reaches this offset
            buf.append(fill_len, (char)0xa5);
        }
        buf += it.enc;
        buf += sent_enc;
        if (cx.describe) cx.description += " " + std::to_string(off);
        cx.log.ev("POS " + std::to_string(off));
        SimStreamBuf sb(buf, buf.size(), (mix64(cx.seed, i) & 1) ? (size_t)(1 + mix64(cx.seed, i + 7) % 9000) : 0, mix64(cx.seed, i));
        std::istream is(&sb);
        g_arena2.fill(std::string("\x01\x02\x03\x18\x2a", 5));
        static_assert(sizeof(CDNS::CdnsDecoder) <= sizeof(g_arena2.mem), "arena too small");
        CDNS::CdnsDecoder* dec = new (g_arena2.mem) CDNS::CdnsDecoder(is);
        std::string where = std::string(RN[it.op]) + " at offset " + std::to_string(off);
        try {
            if (have_filler) {
                for (size_t k = 0; k < lead; k++) dec->read_unsigned();
                if (i & 1) dec->skip_item();
                else { std::string f = dec->read_bytestring(); if (f.size() != fill_len) cx.violation("C07", "C07/I23/filler-string-length", where + ": " + std::to_string(f.size()) + " != " + std::to_string(fill_len)); }
            }
            std::string detail;
            bool ok = apply_item(dec, it, detail);
            if (!ok) cx.violation("C07", "C07/I23/wrong-value" + feat, where + ": " + detail + " (item " + hex(it.enc, 24) + ")");
            else {
                if (it.op != R_PEEK) {
                    uint64_t s = dec->read_unsigned();
                    if (s != sentinel) cx.violation("C07", "C07/I23/sentinel-not-next" + feat, where + ": read " + std::to_string(s) + " instead of the sentinel " + std::to_string(sentinel) + " (item " + hex(it.enc, 24) + ")");
                    else cx.ctr->add("items_decoded_ok");
                } else cx.ctr->add("items_decoded_ok");
            }
        } catch (std::exception& e) {
            {
                cx.violation("C07", "C07/I23/well-formed-item-rejected" + feat, where + ": " + e.what() + " (item " + hex(it.enc, 24) + ")");
            }
        }
        dec->~CdnsDecoder();
        if (off >= W - 10 && off <= W + 10) cx.ctr->add("probe.item_at_first_window_boundary");
        if (off + it.enc.size() > W && off < W) cx.ctr->add("probe.item_straddles_window_boundary");
        cx.nontrivial = true;
    }
    cx.state_key = std::string(RN[it.op]) + (it.indef ? "i" : "d") + std::to_string((uint8_t)it.enc[0] >> 5) + ",";
}

// =================================================================================================
// C05 at the decoder level: a stream of items is cut at an item boundary or inside an item, the items wholly inside the prefix are
// read with the operation made for them (directly or after a peek), and then: whatever read / peek / skip operation comes first on
// the exhausted input must end with CdnsDecoderEnd — and so must the one after it. One item boundary is placed at k*65535 + {-1,0,1}.
namespace {
enum { X_UNSIGNED, X_NEGATIVE, X_INTEGER, X_BOOL, X_BYTES, X_TEXT, X_ARRAY_START, X_MAP_START, X_BREAK, X_ARRAY_CB, X_SKIP, X_PEEK, X_N };
// returns "value" if the operation returned normally, otherwise the class of the exception
std::string op_on_exhausted_input(CDNS::CdnsDecoder* dec, unsigned op) {
    try {
        bool ind = false;
        switch (op) {
            case X_UNSIGNED: dec->read_unsigned(); break;
            case X_NEGATIVE: dec->read_negative(); break;
            case X_INTEGER: dec->read_integer(); break;
            case X_BOOL: dec->read_bool(); break;
            case X_BYTES: dec->read_bytestring(); break;
            case X_TEXT: dec->read_textstring(); break;
            case X_ARRAY_START: dec->read_array_start(ind); break;
            case X_MAP_START: dec->read_map_start(ind); break;
            case X_BREAK: dec->read_break(); break;
            case X_ARRAY_CB: dec->read_array([](CDNS::CdnsDecoder& d) { d.skip_item(); }); break;
            case X_SKIP: dec->skip_item(); break;
            default: dec->peek_type(); break;
        }
    } catch (CDNS::CdnsDecoderEnd&) { return "CdnsDecoderEnd"; }
    catch (CDNS::CdnsDecoderException& e) { return std::string("CdnsDecoderException(") + e.what() + ")"; }
    catch (std::exception& e) { return std::string("std::exception(") + e.what() + ")"; }
    return "value";
}
}  // namespace

void sim::engine_eofdec(RunCtx& cx) {
    static const size_t W = 65535;
    Rng r(mix_str(cx.seed, "eofdec"));
    unsigned n = (unsigned)r.range(1, 7);
    std::vector<Item> items;
    while (items.size() < n) { Item it = make_item(r); if (it.op != R_PEEK) items.push_back(it); }
    // one boundary (before item `a`, a == n: the end of the stream) is placed at k*W + d by a filler in front
    unsigned a = (unsigned)r.below(n + 1);
    size_t k = r.below(3);
    long d = (long)r.below(3) - 1;
    size_t before_a = 0;
    for (unsigned i = 0; i < a; i++) before_a += items[i].enc.size();
    std::string buf;
    size_t lead = 0, fill_len = 0;
    bool have_filler = false;
    if (k > 0 && (long)(k * W) + d > (long)before_a + 8) {
        size_t off = (size_t)((long)(k * W) + d) - before_a;
        for (lead = 0; lead <= 2; lead += 2) {
            size_t o = off - lead;
            size_t head = o - 1 < 24 ? 1 : o - 2 <= 0xff ? 2 : o - 3 <= 0xffff ? 3 : 5;
            fill_len = o - head;
            buf.assign(lead, '\0');
            ref::put_head(buf, 2, fill_len);
            if (buf.size() == lead + head) { have_filler = true; break; }
        }
        if (have_filler) buf.append(fill_len, (char)0xa5); else { buf.clear(); lead = 0; }
    }
    size_t filler_end = buf.size();
    std::vector<size_t> off;   // off[i] = offset of item i; off[n] = end
    for (auto& it : items) { off.push_back(buf.size()); buf += it.enc; }
    off.push_back(buf.size());
    if (have_filler) { cx.tag("boundary-at-window-multiple"); cx.ctr->add("probe.item_boundary_at_window_multiple"); }
    // ops of the plan: boundary cuts 0..n, then one cut inside each item longer than one byte
    struct Cut { size_t at; unsigned items_inside; bool mid; };
    std::vector<Cut> cuts;
    for (unsigned i = 0; i <= n; i++) cuts.push_back({off[i], i, false});
    for (unsigned i = 0; i < n; i++) if (items[i].enc.size() > 1) cuts.push_back({off[i] + 1 + (size_t)(mix64(cx.seed, 300 + i) % (items[i].enc.size() - 1)), i, true});
    cx.n_ops = (unsigned)cuts.size();
    cx.log.ev("STREAM " + std::to_string(buf.size()) + " " + std::to_string(fnv1a(buf)) + " items " + std::to_string(n));
    if (cx.describe) {
        cx.description = "stream of " + std::to_string(buf.size()) + " bytes: " + (have_filler ? "filler of " + std::to_string(filler_end) + " bytes, " : std::string());
        for (unsigned i = 0; i < n; i++) cx.description += std::string(RN[items[i].op]) + "@" + std::to_string(off[i]) + " ";
        cx.description += "; cuts:";
    }
    static const char* XN[] = {"read_unsigned", "read_negative", "read_integer", "read_bool", "read_bytestring", "read_textstring", "read_array_start", "read_map_start", "read_break", "read_array", "skip_item", "peek_type"};
    static const char* KN[] = {"stringstream", "simstream-chunked", "ifstream-short-file", "ifstream-eof-fault"};
    simfs::FS& F = simfs::fs();
    for (unsigned c = 0; c < cuts.size(); c++) {
        if (!cx.kept(c)) continue;
        const Cut& cut = cuts[c];
        uint64_t m = mix64(cx.seed, 500 + c);
        unsigned kind = (unsigned)(m % 4);
        unsigned op1 = (unsigned)((m >> 8) % X_N), op2 = (unsigned)((m >> 16) % X_N);
        unsigned pat = (unsigned)((m >> 24) % 3);
        bool peek_first = (m >> 32) & 1;
        cx.log.ev("CUT " + std::to_string(cut.at) + (cut.mid ? " mid " : " boundary ") + KN[kind] + " then " + XN[op1] + "," + XN[op2]);
        if (cx.describe) cx.description += " " + std::to_string(cut.at) + (cut.mid ? "(inside an item)" : "") + "/" + KN[kind] + "/then " + XN[op1] + "," + XN[op2];
        std::string prefix = buf.substr(0, cut.at);
        F.reset();
        F.ctr = cx.ctr;
        std::unique_ptr<std::istream> is;
        std::unique_ptr<SimStreamBuf> sb;
        switch (kind) {
            case 0: is.reset(new std::istringstream(prefix)); break;
            case 1: sb.reset(new SimStreamBuf(buf, cut.at, (size_t)(1 + (m >> 40) % 9000), m)); is.reset(new std::istream(sb.get())); break;
            case 2: F.put("/sim/in", prefix); is.reset(new std::ifstream("/sim/in", std::ifstream::binary)); break;
            default:
                F.put("/sim/in", buf);
                F.default_rpolicy.eof_at = (long)cut.at;
                F.default_rpolicy.max_chunk = 1 + (size_t)((m >> 40) % 70000);
                F.default_rpolicy.seed = m;
                F.default_rpolicy.eintr_pm = 50;
                is.reset(new std::ifstream("/sim/in", std::ifstream::binary));
                break;
        }
        // stale decoder memory: 0xff bytes (a break wherever one looks), small integers, or zeros
        g_arena2.fill(pat == 0 ? std::string("\xff", 1) : pat == 1 ? std::string("\x01\x02\x03\x18\x2a", 5) : std::string());
        CDNS::CdnsDecoder* dec = new (g_arena2.mem) CDNS::CdnsDecoder(*is);
        std::string where = "stream cut at " + std::to_string(cut.at) + " of " + std::to_string(buf.size()) + " bytes (" + (cut.mid ? "inside item " : "before item ") + std::to_string(cut.items_inside) + ") via " + KN[kind];
        std::string feat = cut.at == 0 ? "/empty-input" : (cut.at % W == 0 ? "/cut-at-window-multiple" : "");
        bool sound = true;
        try {
            if (have_filler) {
                for (size_t q = 0; q < lead; q++) dec->read_unsigned();
                if (m & (1ull << 33)) dec->skip_item();
                else { std::string f = dec->read_bytestring(); if (f.size() != fill_len) { cx.violation("C05", "C05/I21/item-inside-prefix-wrong/filler", where + ": filler string of " + std::to_string(f.size()) + " bytes"); sound = false; } }
            }
            for (unsigned i = 0; i < cut.items_inside && sound; i++) {
                std::string detail;
                // items at the aligned boundary are read without a preceding peek in half of the runs
                if (peek_first && items[i].op != R_SKIP) dec->peek_type();
                if (!apply_item(dec, items[i], detail)) { cx.violation("C05", std::string("C05/I21/item-inside-prefix-wrong/") + RN[items[i].op] + feat, where + ": item " + std::to_string(i) + " at offset " + std::to_string(off[i]) + ": " + detail); sound = false; }
            }
        } catch (std::exception& e) {
            cx.violation("C05", std::string("C05/I21/item-inside-prefix-rejected") + feat, where + ": an item wholly inside the prefix was not decoded: " + e.what());
            sound = false;
        }
        if (sound) {
            if (cut.mid) {
                // the cut item itself: its own operation runs out of input
                std::string o;
                try { std::string detail; apply_item(dec, items[cut.items_inside], detail); o = "value"; }
                catch (CDNS::CdnsDecoderEnd&) { o = "CdnsDecoderEnd"; }
                catch (CDNS::CdnsDecoderException& e) { o = std::string("CdnsDecoderException(") + e.what() + ")"; }
                catch (std::exception& e) { o = std::string("std::exception(") + e.what() + ")"; }
                if (o == "value") cx.violation("C05", std::string("C05/I21/value-from-truncated-item/") + RN[items[cut.items_inside].op] + feat, where + ": " + RN[items[cut.items_inside].op] + " returned normally on an item that is cut short");
                else if (o != "CdnsDecoderEnd") cx.violation("C05", std::string("C05/I21/wrong-error-for-truncated-item/") + RN[items[cut.items_inside].op] + feat, where + ": " + RN[items[cut.items_inside].op] + " ended with " + o);
                cx.ctr->add("probe.cut_inside_item");
            } else {
                std::string o = op_on_exhausted_input(dec, op1);
                if (o == "value") cx.violation("C05", std::string("C05/I21/value-after-end-of-input/") + XN[op1] + feat, where + ": " + XN[op1] + " as first operation on the exhausted input returned normally");
                else if (o != "CdnsDecoderEnd") cx.violation("C05", std::string("C05/I21/wrong-error-at-end-of-input/") + XN[op1] + feat, where + ": " + XN[op1] + " as first operation on the exhausted input ended with " + o);
                cx.ctr->add(std::string("first_op_on_exhausted_input.") + XN[op1]);
            }
            // ... and the next operation as well
            std::string o2 = op_on_exhausted_input(dec, op2);
            if (o2 == "value") cx.violation("C05", std::string("C05/I21/value-after-end-was-reported/") + XN[op2] + feat, where + ": " + XN[op2] + " returned normally after end of input had been reported");
            else if (o2 != "CdnsDecoderEnd") cx.violation("C05", std::string("C05/I21/end-of-input-not-sticky/") + XN[op2] + feat, where + ": " + XN[op2] + " after end of input had been reported ended with " + o2);
        }
        dec->~CdnsDecoder();
        is.reset();
        sb.reset();
        F.reset();
        cx.ctr->add(std::string("stream_kind.") + KN[kind]);
        if (cut.at % W == 0 && cut.at > 0) cx.ctr->add("probe.cut_at_exact_window_multiple");
        if (cut.at == 0) cx.ctr->add("probe.empty_input");
        cx.nontrivial = true;
    }
    cx.state_key = std::to_string(n) + (have_filler ? "w" + std::to_string(k) : "n") + ",";
}

// =================================================================================================
// C08
void sim::engine_reencode(RunCtx& cx) {
    Rng r(mix_str(cx.seed, "reencode"));
    std::vector<std::string> files = ppl::produce_files(mix_str(cx.seed, "file"), r.chance(1, 3) ? "C09" : "C01");
    cx.n_ops = 0;
    if (files.empty()) return;
    const std::string& orig = files[r.below(files.size())];
    ref::Node root;
    try { root = ref::Decoder(orig).parse_all(); } catch (std::exception&) { cx.ctr->add("files_rejected_by_reference"); return; }
    CDNS::FilePreamble pre0, pre1;
    std::istringstream i0(orig);
    ReadResult a = read_all(i0, std::string(), &pre0);
    if (a.end_type != "eof") { cx.ctr->add("original_not_readable"); return; }
    // rewrite kinds = ops of the plan (each op enables one family of rewrites; ddmin finds the family that matters)
    static const char* FAM[] = {"indefinite", "widen-heads", "permute-maps", "unknown-members", "duplicate-table-entries"};
    cx.n_ops = 5;
    // family 5: a producer that does not de-duplicate its block tables (legal in RFC 8618): an equal copy of an ip-address /
    // name-rdata entry is appended to the table and some of the references to the original are pointed at the copy
    unsigned n_dups = 0;
    if (cx.kept(4) && root.kids.size() == 3) {
        Rng q(mix_str(cx.seed, "dups"));
        n_dups = ref::duplicate_table_entries(root, q);
        if (n_dups) cx.tag(FAM[4]);
    }
    ref::Policy pol;
    pol.rng = Rng(mix_str(cx.seed, "policy"));
    unsigned strength = (unsigned)r.pick(std::vector<unsigned>{50, 200, 600, 1000});
    bool only_dups = cx.prop == "C11";
    if (cx.kept(0) && !only_dups) { pol.indef = strength; cx.tag(FAM[0]); }
    if (cx.kept(1) && !only_dups) { pol.widen = strength; cx.tag(FAM[1]); }
    if (cx.kept(2) && !only_dups) { pol.permute = strength; cx.tag(FAM[2]); }
    if (cx.kept(3) && !only_dups) { pol.unknown = strength / 4 + 20; cx.tag(FAM[3]); }
    std::string rew;
    ref::encode_policy(root, pol, rew);
    if (cx.describe) {
        cx.description = "file of " + std::to_string(orig.size()) + " bytes rewritten to " + std::to_string(rew.size()) + " bytes; rewrites:";
        for (int k = 0; k < 5; k++) if (cx.kept(k)) cx.description += std::string(" ") + FAM[k];
        cx.description += " strength=" + std::to_string(strength) + " (indef " + std::to_string(pol.n_indef) + ", widened " + std::to_string(pol.n_widen) + ", permuted " + std::to_string(pol.n_permute) +
                          ", unknown " + std::to_string(pol.n_unknown) + ")";
    }
    cx.log.ev("REWRITE " + std::to_string(rew.size()) + " " + std::to_string(fnv1a(rew)));
    // the rewrite must denote the same data for the independent reader (guards the harness, not the library)
    try {
        ref::RFile f0 = ref::Interp::file(orig), f1 = ref::Interp::file(rew);
        bool same = f0.blocks.size() == f1.blocks.size();
        for (size_t k = 0; same && k < f0.blocks.size(); k++)
            same = f0.blocks[k].qr == f1.blocks[k].qr && f0.blocks[k].mm == f1.blocks[k].mm && f0.blocks[k].stats == f1.blocks[k].stats && f0.blocks[k].aec.size() == f1.blocks[k].aec.size();
        if (!same) throw Failure("reencode: the reference reader sees different data in the rewrite");
    } catch (ref::SchemaError& e) { throw Failure(std::string("reencode: reference reader rejects the rewrite: ") + e.what()); }
    catch (ref::Malformed& e) { throw Failure(std::string("reencode: rewrite is malformed: ") + e.what()); }
    cx.ctr->add("rewrites.indefinite", pol.n_indef);
    cx.ctr->add("rewrites.widened_heads", pol.n_widen);
    cx.ctr->add("rewrites.permuted_maps", pol.n_permute);
    cx.ctr->add("rewrites.unknown_members", pol.n_unknown);
    cx.ctr->add("rewrites.string_chunks", pol.n_chunked);
    cx.ctr->add("rewrites.zero_length_chunks", pol.n_zero_chunk);
    cx.ctr->add("rewrites.duplicated_table_entries", n_dups);
    std::istringstream i1(rew);
    ReadResult b = read_all(i1, std::string(), &pre1);
    std::string fam;
    for (auto& t : cx.tags) fam += (fam.empty() ? "" : "+") + t;
    if (b.end_type != "eof")
        cx.violation("C08", "C08/I24/equivalent-file-rejected", "rewrite (" + fam + ") ended with " + b.end_type + ": " + b.end_what + " after " + std::to_string(b.blocks.size()) + "/" + std::to_string(a.blocks.size()) + " blocks");
    else if (a.blocks.size() != b.blocks.size())
        cx.violation("C08", "C08/I24/block-count-differs", "rewrite (" + fam + ") yields " + std::to_string(b.blocks.size()) + " blocks, original " + std::to_string(a.blocks.size()));
    else {
        for (size_t k = 0; k < a.blocks.size(); k++)
            if (a.blocks[k] != b.blocks[k]) { cx.violation("C08", "C08/I24/block-content-differs", "rewrite (" + fam + "): block " + std::to_string(k) + " decodes differently"); break; }
        ppl::PCanon dummy;
        bool pre_same = pre0.m_major_format_version == pre1.m_major_format_version && pre0.m_minor_format_version == pre1.m_minor_format_version &&
                        pre0.m_private_version == pre1.m_private_version && pre0.m_block_parameters.size() == pre1.m_block_parameters.size();
        for (size_t k = 0; pre_same && k < pre0.m_block_parameters.size(); k++) {
            ppl::PCanon c0 = ppl::canon_params(pre0.m_block_parameters[k]), c1 = ppl::canon_params(pre1.m_block_parameters[k]);
            pre_same = c0.storage == c1.storage && c0.has_cp == c1.has_cp && c0.cp == c1.cp;
        }
        if (!pre_same) cx.violation("C08", "C08/I24/preamble-differs", "rewrite (" + fam + "): the preamble decodes differently");
    }
    // a reader that loads duplicated table entries wrongly breaks C11's read-side clause (indices keep denoting the same value)
    if (n_dups && cx.viol.size() && cx.prop == "C11") {
        sim::Violation v = cx.viol[0];
        cx.violation("C11", "C11/I05/read-block-with-duplicated-table-entries", "a file whose block tables contain equal entries (" + std::to_string(n_dups) + " duplicated) is read differently: " + v.detail);
    }
    cx.nontrivial = pol.n_indef + pol.n_widen + pol.n_permute + pol.n_unknown + n_dups > 0;
    cx.state_key = fam + ",";
}
