// In-process execution of the five CLI tools (their sources are compiled with -Dmain=<tool>_main) on SimFS,
// with std::cout / std::cerr captured.
#pragma once
#include "common.h"
#include <getopt.h>
#include <iostream>

int cdns_merge_main(int, char**);
int cdns_itemcount_main(int, char**);
int cdns_items_main(int, char**);
int cdns_blocks_main(int, char**);
int cdns_preamble_main(int, char**);

namespace tools {

struct Result {
    int rc = 0;
    std::string out, err;
    bool escaped = false;           // an exception left main()
    std::string escaped_what;
};

inline Result run(int (*mainfn)(int, char**), const std::vector<std::string>& args) {
    Result r;
    std::vector<std::string> store = args;
    std::vector<char*> argv;
    for (auto& a : store) argv.push_back(const_cast<char*>(a.c_str()));
    argv.push_back(nullptr);
    std::ostringstream o, e;
    std::streambuf* ob = std::cout.rdbuf(o.rdbuf());
    std::streambuf* eb = std::cerr.rdbuf(e.rdbuf());
    optind = 0;   // glibc: full re-initialisation of getopt
    try {
        r.rc = mainfn((int)args.size(), argv.data());
    } catch (std::exception& x) {
        r.escaped = true;
        r.escaped_what = x.what();
    }
    std::cout.rdbuf(ob);
    std::cerr.rdbuf(eb);
    std::cout.clear();
    std::cerr.clear();
    r.out = o.str();
    r.err = e.str();
    return r;
}

}  // namespace tools
