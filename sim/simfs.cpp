// SimFS implementation and the libc entry points the harness executable takes over.
#ifndef _GNU_SOURCE
#define _GNU_SOURCE
#endif
#include "simfs.h"
#include "simsched.h"
#include <dlfcn.h>
#include <errno.h>
#include <fcntl.h>
#include <stdarg.h>
#include <sys/stat.h>
#include <sys/syscall.h>
#include <sys/uio.h>
#include <unistd.h>

#if defined(__SANITIZE_ADDRESS__)
extern "C" void* __asan_region_is_poisoned(void* beg, size_t size);
#define SIM_ASAN 1
#elif defined(__has_feature)
#if __has_feature(address_sanitizer)
extern "C" void* __asan_region_is_poisoned(void* beg, size_t size);
#define SIM_ASAN 1
#endif
#endif

// ThreadSanitizer flavour: SimFS is harness state shared by the simulated threads (which the scheduler serialises without
// TSan knowing). Its memory accesses are excluded from race detection, whatever instrumented template copies the linker
// picked for its containers.
#ifdef SIM_TSAN
extern "C" void AnnotateIgnoreReadsBegin(const char*, int);
extern "C" void AnnotateIgnoreReadsEnd(const char*, int);
extern "C" void AnnotateIgnoreWritesBegin(const char*, int);
extern "C" void AnnotateIgnoreWritesEnd(const char*, int);
struct TsanIgnore {
    TsanIgnore() { AnnotateIgnoreReadsBegin(__FILE__, __LINE__); AnnotateIgnoreWritesBegin(__FILE__, __LINE__); }
    ~TsanIgnore() { AnnotateIgnoreWritesEnd(__FILE__, __LINE__); AnnotateIgnoreReadsEnd(__FILE__, __LINE__); }
};
#define SIM_IGNORE TsanIgnore tsan_ignore_guard
#else
#define SIM_IGNORE do {} while (0)
#endif

namespace simfs {

static unsigned char g_is_sim[65536];  // POD: usable before any constructor has run
static FS* g_fs = nullptr;

FS& fs() {
    if (!g_fs) g_fs = new FS();
    return *g_fs;
}

bool is_sim_path(const char* p) { return p && strncmp(p, "/sim/", 5) == 0; }

static bool ends_with(const std::string& s, const char* suf) {
    size_t n = strlen(suf);
    return s.size() >= n && s.compare(s.size() - n, n, suf) == 0;
}

void FS::reset() {
    close_all_leaked();
    dir.clear();
    wfaults.clear();
    watcher = nullptr;
    next_inode = 1;
    next_handle = 1;
    n_events = 0;
    default_rpolicy = RPolicy();
    rpolicy_by_path.clear();
    fopen_fail_k = 0;
    fopen_w_calls = 0;
    unopenable.clear();
}

void FS::close_all_leaked() {
    for (auto& kv : open_files) {
        g_is_sim[kv.first] = 0;
        syscall(SYS_close, kv.first);
    }
    open_files.clear();
}

void FS::put(const std::string& path, const std::string& data) {
    auto ino = std::make_shared<Inode>();
    ino->id = next_inode++;
    ino->data = data;
    ino->had_final_name = !ends_with(path, ".part");
    ino->closed_once = ino->had_final_name;   // (a leftover '.part' of a killed run is expected to be reopened and truncated)
    dir[path] = ino;
}

const std::string& FS::get(const std::string& path) const {
    auto it = dir.find(path);
    if (it == dir.end()) throw sim::Failure("SimFS: no such file " + path);
    return it->second->data;
}

std::vector<std::string> FS::list() const {
    std::vector<std::string> r;
    for (auto& kv : dir) r.push_back(kv.first);
    return r;
}

int FS::make_fd(const std::string& name) {
    SIM_IGNORE;
    int fd = (int)syscall(SYS_open, "/dev/null", O_RDWR);
    if (fd < 0 || fd >= 65536) throw sim::Failure("SimFS: cannot reserve a descriptor");
    OpenFile of;
    of.inode = std::make_shared<Inode>();
    of.inode->id = next_inode++;
    of.inode->opens = 1;
    of.path = "fd:" + name;
    of.handle = next_handle++;
    of.writing = true;
    of.is_stream = false;
    dir[of.path] = of.inode;
    open_files[fd] = of;
    g_is_sim[fd] = 1;
    return fd;
}

std::shared_ptr<Inode> FS::fd_inode(const std::string& name) const {
    SIM_IGNORE;
    auto it = dir.find("fd:" + name);
    return it == dir.end() ? nullptr : it->second;
}

static void emit(FS& F, Event& e) {
    F.n_events++;
    if (F.log) {
        static const char* kn[] = {"OPEN_W", "OPEN_R", "WRITE", "CLOSE", "RENAME", "FSTAT", "READ"};
        std::string s = kn[(int)e.kind];
        s += " h" + std::to_string(e.handle) + " " + e.path;
        if (!e.path2.empty()) s += " -> " + e.path2;
        if (e.kind == Ev::WRITE || e.kind == Ev::READ) s += " req=" + std::to_string(e.requested);
        s += " res=" + std::to_string(e.result);
        F.log->ev(s);
    }
    if (F.watcher) F.watcher(e);
}

static void check_region(const void* p, size_t n, const char* who) {
#ifdef SIM_ASAN
    if (n && __asan_region_is_poisoned(const_cast<void*>(p), n)) {
        fprintf(stderr, "SimFS: %s given a poisoned buffer (%zu bytes)\n", who, n);
        abort();
    }
#else
    (void)p; (void)n; (void)who;
#endif
}

// returns bytes accepted or -errno; applies the write-fault plan
static long sim_write(FS& F, int fd, OpenFile& of, const char* data, size_t n) {
    of.wcalls++;
    long res = (long)n;
    for (auto& wf : F.wfaults) {
        if (wf.dest != of.path) continue;
        bool hit = wf.persist ? of.wcalls >= wf.k : of.wcalls == wf.k;
        if (!hit) continue;
        wf.fired++;
        switch (wf.kind) {
            case WFault::ENOSPC_: res = -ENOSPC; if (F.ctr) F.ctr->add("fault_fired.enospc"); break;
            case WFault::EIO_: res = -EIO; if (F.ctr) F.ctr->add("fault_fired.eio"); break;
            case WFault::EINTR_: res = -EINTR; if (F.ctr) F.ctr->add("fault_fired.eintr"); break;
            case WFault::SHORT: {
                // a short count still makes progress (a kernel does not return 0 for a non-empty regular-file write);
                // a 1-byte request therefore cannot be cut
                if (n < 2) { wf.fired--; break; }
                size_t acc = n * wf.short_pm / 1000;
                if (acc < 1) acc = 1;
                if (acc >= n) acc = n - 1;
                res = (long)acc;
                if (F.ctr) F.ctr->add("fault_fired.short");
                break;
            }
        }
        break;
    }
    if (res > 0) {
        of.inode->data.append(data, (size_t)res);
        if (of.inode->had_final_name || of.inode->closed_once) of.inode->writes_after_final += (size_t)res;
    }
    Event e;
    e.kind = Ev::WRITE;
    e.path = of.path;
    e.handle = of.handle;
    e.requested = n;
    e.result = res;
    e.inode = of.inode;
    emit(F, e);
    (void)fd;
    return res;
}

static long sim_read(FS& F, OpenFile& of, char* buf, size_t n) {
    long res;
    const std::string& d = of.inode->data;
    size_t limit = d.size();
    if (of.rp.eof_at >= 0 && (size_t)of.rp.eof_at < limit) limit = (size_t)of.rp.eof_at;
    if (of.rp.eintr_pm && of.rrng.below(1000) < of.rp.eintr_pm) {
        res = -EINTR;
        if (F.ctr) F.ctr->add("fault_fired.read_eintr");
    } else if (of.rp.eio_at >= 0 && of.rpos >= (size_t)of.rp.eio_at) {
        res = -EIO;
        if (F.ctr) F.ctr->add("fault_fired.read_eio");
    } else {
        size_t avail = of.rpos < limit ? limit - of.rpos : 0;
        size_t take = n < avail ? n : avail;
        if (of.rp.eio_at >= 0 && of.rpos + take > (size_t)of.rp.eio_at) take = (size_t)of.rp.eio_at - of.rpos;
        if (of.rp.max_chunk && take > 0) {
            size_t c = 1 + of.rrng.below(of.rp.max_chunk);
            if (c < take) { take = c; if (F.ctr) F.ctr->add("fault_fired.short_read"); }
        }
        memcpy(buf, d.data() + of.rpos, take);
        of.rpos += take;
        res = (long)take;
        if (take == 0 && of.rp.eof_at >= 0 && F.ctr) F.ctr->add("fault_fired.read_eof_cut");
    }
    Event e;
    e.kind = Ev::READ;
    e.path = of.path;
    e.handle = of.handle;
    e.requested = n;
    e.result = res;
    e.inode = of.inode;
    emit(F, e);
    return res;
}

}  // namespace simfs

using namespace simfs;

typedef FILE* (*fopen_t)(const char*, const char*);
typedef int (*fclose_t)(FILE*);

static FILE* real_fopen(const char* p, const char* m, bool is64) {
    static fopen_t f32 = nullptr, f64 = nullptr;
    if (!f32) f32 = (fopen_t)dlsym(RTLD_NEXT, "fopen");
    if (!f64) f64 = (fopen_t)dlsym(RTLD_NEXT, "fopen64");
    return (is64 && f64 ? f64 : f32)(p, m);
}

static FILE* sim_fopen(const char* path, const char* mode, bool is64) {
    sched::syscall_point();
    if (!is_sim_path(path)) return real_fopen(path, mode, is64);
    SIM_IGNORE;
    FS& F = fs();
    bool wr = mode[0] == 'w' || mode[0] == 'a';
    std::shared_ptr<Inode> ino;
    if (wr) {
        F.fopen_w_calls++;
        if ((F.fopen_fail_k && F.fopen_w_calls == F.fopen_fail_k) || F.unopenable.count(path)) {
            if (F.ctr) F.ctr->add("fault_fired.fopen_fail");
            if (F.log) F.log->ev(std::string("OPEN_W-FAIL ") + path);
            errno = EACCES;
            return nullptr;
        }
        auto it = F.dir.find(path);
        if (it != F.dir.end()) {
            ino = it->second;  // same inode, truncated (what open(O_TRUNC) does)
            if (mode[0] == 'w') {
                if ((ino->had_final_name || ino->closed_once) && !ino->data.empty()) ino->writes_after_final += 1;
                ino->data.clear();
            }
        } else {
            ino = std::make_shared<Inode>();
            ino->id = F.next_inode++;
            ino->had_final_name = !ends_with(path, ".part");
            // selftest canary: the stub pretends every new output is visible under its final name from the start
            { static const bool canary = getenv("VERIF_CANARY") && !strcmp(getenv("VERIF_CANARY"), "early-visible"); if (canary) ino->had_final_name = true; }
            F.dir[path] = ino;
        }
    } else {
        auto it = F.dir.find(path);
        if (it == F.dir.end()) {
            errno = ENOENT;
            return nullptr;
        }
        ino = it->second;
    }
    FILE* f = real_fopen("/dev/null", wr ? "w" : "r", is64);
    if (!f) return nullptr;
    int fd = fileno(f);
    if (fd < 0 || fd >= 65536) { errno = EMFILE; return nullptr; }
    OpenFile of;
    of.inode = ino;
    of.path = path;
    of.handle = F.next_handle++;
    of.writing = wr;
    of.is_stream = true;
    auto rpit = F.rpolicy_by_path.find(path);
    of.rp = rpit != F.rpolicy_by_path.end() ? rpit->second : F.default_rpolicy;
    of.rrng = sim::Rng(sim::mix64(of.rp.seed, of.handle));
    ino->opens++;
    F.open_files[fd] = of;
    g_is_sim[fd] = 1;
    Event e;
    e.kind = wr ? Ev::OPEN_W : Ev::OPEN_R;
    e.path = path;
    e.handle = of.handle;
    e.inode = ino;
    emit(F, e);
    return f;
}

extern "C" {

FILE* fopen(const char* path, const char* mode) { return sim_fopen(path, mode, false); }
FILE* fopen64(const char* path, const char* mode) { return sim_fopen(path, mode, true); }

int fclose(FILE* f) {
    sched::syscall_point();
    static fclose_t real = nullptr;
    if (!real) real = (fclose_t)dlsym(RTLD_NEXT, "fclose");
    int fd = f ? fileno(f) : -1;
    if (fd >= 0 && fd < 65536 && g_is_sim[fd]) {
        SIM_IGNORE;
        FS& F = fs();
        auto it = F.open_files.find(fd);
        if (it != F.open_files.end()) {
            OpenFile of = it->second;
            F.open_files.erase(it);
            g_is_sim[fd] = 0;
            of.inode->opens--;
            if (of.writing) of.inode->closed_once = true;
            Event e;
            e.kind = Ev::CLOSE;
            e.path = of.path;
            e.handle = of.handle;
            e.inode = of.inode;
            emit(F, e);
        }
    }
    return real(f);
}

ssize_t write(int fd, const void* buf, size_t n) {
    sched::syscall_point();
    if (fd >= 0 && fd < 65536 && g_is_sim[fd]) {
        SIM_IGNORE;
        FS& F = fs();
        auto it = F.open_files.find(fd);
        if (it != F.open_files.end()) {
            check_region(buf, n, "write");
            long r = sim_write(F, fd, it->second, (const char*)buf, n);
            if (r < 0) { errno = (int)-r; return -1; }
            return r;
        }
    }
    return syscall(SYS_write, fd, buf, n);
}

ssize_t writev(int fd, const struct iovec* iov, int cnt) {
    sched::syscall_point();
    if (fd >= 0 && fd < 65536 && g_is_sim[fd]) {
        SIM_IGNORE;
        FS& F = fs();
        auto it = F.open_files.find(fd);
        if (it != F.open_files.end()) {
            std::string all;
            for (int i = 0; i < cnt; i++) {
                check_region(iov[i].iov_base, iov[i].iov_len, "writev");
                all.append((const char*)iov[i].iov_base, iov[i].iov_len);
            }
            long r = sim_write(F, fd, it->second, all.data(), all.size());
            if (r < 0) { errno = (int)-r; return -1; }
            return r;
        }
    }
    return syscall(SYS_writev, fd, iov, cnt);
}

ssize_t read(int fd, void* buf, size_t n) {
    sched::syscall_point();
    if (fd >= 0 && fd < 65536 && g_is_sim[fd]) {
        SIM_IGNORE;
        FS& F = fs();
        auto it = F.open_files.find(fd);
        if (it != F.open_files.end()) {
            check_region(buf, n, "read");
            long r = sim_read(F, it->second, (char*)buf, n);
            if (r < 0) { errno = (int)-r; return -1; }
            return r;
        }
    }
    return syscall(SYS_read, fd, buf, n);
}

int close(int fd) {
    sched::syscall_point();
    if (fd >= 0 && fd < 65536 && g_is_sim[fd]) {
        SIM_IGNORE;
        FS& F = fs();
        auto it = F.open_files.find(fd);
        if (it != F.open_files.end() && !it->second.is_stream) {
            OpenFile of = it->second;
            F.open_files.erase(it);
            g_is_sim[fd] = 0;
            of.inode->opens--;
            of.inode->closed_once = true;
            Event e;
            e.kind = Ev::CLOSE;
            e.path = of.path;
            e.handle = of.handle;
            e.inode = of.inode;
            emit(F, e);
        }
    }
    return (int)syscall(SYS_close, fd);
}

static int sim_fstat_fill(int fd, struct stat* st) {
    SIM_IGNORE;
    FS& F = fs();
    auto it = F.open_files.find(fd);
    if (it == F.open_files.end()) return -2;
    memset(st, 0, sizeof *st);
    st->st_mode = S_IFREG | 0644;
    st->st_size = (off_t)it->second.inode->data.size();
    st->st_nlink = 1;
    Event e;
    e.kind = Ev::FSTAT;
    e.path = it->second.path;
    e.handle = it->second.handle;
    e.inode = it->second.inode;
    emit(F, e);
    return 0;
}

int fstat(int fd, struct stat* st) {
    if (fd >= 0 && fd < 65536 && g_is_sim[fd]) {
        int r = sim_fstat_fill(fd, st);
        if (r != -2) return r;
    }
    long r = syscall(SYS_fstat, fd, st);
    return (int)r;
}

int fstat64(int fd, struct stat64* st) { return fstat(fd, (struct stat*)st); }

int rename(const char* from, const char* to) {
    sched::syscall_point();
    if (is_sim_path(from) && is_sim_path(to)) {
        SIM_IGNORE;
        FS& F = fs();
        Event e;
        e.kind = Ev::RENAME;
        e.path = from;
        e.path2 = to;
        auto it = F.dir.find(from);
        if (it == F.dir.end()) {
            e.result = -ENOENT;
            emit(F, e);
            errno = ENOENT;
            return -1;
        }
        auto ino = it->second;
        F.dir.erase(it);
        F.dir[to] = ino;
        if (!ends_with(to, ".part")) ino->had_final_name = true;
        e.inode = ino;
        emit(F, e);
        return 0;
    }
    return (int)syscall(SYS_rename, from, to);
}

}  // extern "C"
