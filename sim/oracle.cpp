// Decompression oracle: zlib / liblzma decoders called directly (independent of the library's writers).
#include "model.h"
#include <zlib.h>
#include <lzma.h>

namespace model {

bool gunzip_exact(const std::string& in, std::string& out, std::string& err) {
    out.clear();
    z_stream z;
    memset(&z, 0, sizeof z);
    if (inflateInit2(&z, 16 + 15) != Z_OK) { err = "inflateInit2 failed"; return false; }
    z.next_in = (Bytef*)in.data();
    z.avail_in = (uInt)in.size();
    char buf[65536];
    int rc;
    do {
        z.next_out = (Bytef*)buf;
        z.avail_out = sizeof buf;
        rc = inflate(&z, Z_NO_FLUSH);
        if (rc != Z_OK && rc != Z_STREAM_END) {
            err = std::string("inflate error ") + std::to_string(rc) + (z.msg ? std::string(": ") + z.msg : "");
            inflateEnd(&z);
            return false;
        }
        out.append(buf, sizeof buf - z.avail_out);
        if (rc == Z_OK && z.avail_in == 0 && z.avail_out != 0) {
            err = "gzip stream is truncated (no trailer)";
            inflateEnd(&z);
            return false;
        }
    } while (rc != Z_STREAM_END);
    size_t left = z.avail_in;
    inflateEnd(&z);
    if (left != 0) { err = std::to_string(left) + " bytes after the end of the gzip member"; return false; }
    return true;
}

bool unxz_exact(const std::string& in, std::string& out, std::string& err) {
    out.clear();
    lzma_stream s = LZMA_STREAM_INIT;
    if (lzma_stream_decoder(&s, UINT64_MAX, 0) != LZMA_OK) { err = "lzma_stream_decoder failed"; return false; }
    s.next_in = (const uint8_t*)in.data();
    s.avail_in = in.size();
    uint8_t buf[65536];
    lzma_ret rc;
    do {
        s.next_out = buf;
        s.avail_out = sizeof buf;
        rc = lzma_code(&s, s.avail_in == 0 ? LZMA_FINISH : LZMA_RUN);
        if (rc != LZMA_OK && rc != LZMA_STREAM_END) {
            err = "lzma_code error " + std::to_string((int)rc);
            lzma_end(&s);
            return false;
        }
        out.append((char*)buf, sizeof buf - s.avail_out);
    } while (rc != LZMA_STREAM_END);
    size_t left = s.avail_in;
    lzma_end(&s);
    if (left != 0) { err = std::to_string(left) + " bytes after the end of the xz stream"; return false; }
    return true;
}

}  // namespace model
