// Swarm configuration and seeded generators of library-typed inputs (records, statistics, block
// parameters, preambles). Every value is a pure function of the seeds passed in.
#pragma once
#include "common.h"
#include "cdns.h"

namespace gen {
using sim::Rng;

static const uint64_t EDGE64[] = {0, 1, 23, 24, 255, 256, 65535, 65536, 0xffffffffULL, 0x100000000ULL,
                                  0x7fffffffffffffffULL, 0x8000000000000000ULL, 0xffffffffffffffffULL};

inline uint64_t uint_bits(Rng& r, unsigned bits) {
    uint64_t mask = bits >= 64 ? ~0ULL : ((1ULL << bits) - 1);
    switch (r.below(4)) {
        case 0: return r.pick(EDGE64) & mask;
        case 1: return mask - r.below(3 > mask ? mask + 1 : 3);
        case 2: return r.below(300) & mask;
        default: return r.next() & mask;
    }
}
inline int64_t int64_any(Rng& r) {
    switch (r.below(5)) {
        case 0: return INT64_MIN;
        case 1: return INT64_MAX;
        case 2: { uint64_t u = 0 - r.pick(EDGE64) - (r.coin() ? 1 : 0); return (int64_t)u; }
        case 3: return (int64_t)r.below(100000) - 50000;
        default: return (int64_t)r.next();
    }
}
inline std::string bytes(Rng& r, size_t len) {
    std::string s(len, '\0');
    for (auto& c : s) c = (char)r.below(256);
    return s;
}
inline std::string utf8(Rng& r, size_t chars) {
    std::string s;
    for (size_t i = 0; i < chars; i++) {
        uint32_t cp;
        switch (r.below(4)) {
            case 0: cp = (uint32_t)r.range(0x20, 0x7e); break;
            case 1: cp = (uint32_t)r.range(0x80, 0x7ff); break;
            case 2: cp = (uint32_t)r.range(0x800, 0xd7ff); break;
            default: cp = (uint32_t)r.range(0x10000, 0x10ffff); break;
        }
        if (cp < 0x80) s.push_back((char)cp);
        else if (cp < 0x800) { s.push_back((char)(0xc0 | cp >> 6)); s.push_back((char)(0x80 | (cp & 63))); }
        else if (cp < 0x10000) { s.push_back((char)(0xe0 | cp >> 12)); s.push_back((char)(0x80 | ((cp >> 6) & 63))); s.push_back((char)(0x80 | (cp & 63))); }
        else { s.push_back((char)(0xf0 | cp >> 18)); s.push_back((char)(0x80 | ((cp >> 12) & 63))); s.push_back((char)(0x80 | ((cp >> 6) & 63))); s.push_back((char)(0x80 | (cp & 63))); }
    }
    return s;
}
inline size_t string_len(Rng& r, unsigned big_pm) {
    static const size_t edges[] = {0, 1, 15, 16, 23, 24, 255, 256, 2047, 2048, 2049};
    if (big_pm && r.below(1000) < big_pm) return r.chance(1, 6) ? (size_t)r.range(70000, 140000) : (size_t)r.range(2050, 9000);
    switch (r.below(4)) {
        case 0: return r.pick(edges);
        default: return (size_t)r.below(40);
    }
}

// -------------------------------------------------------------------------------------------
struct Swarm {
    uint64_t seed = 0;
    int compression = 0;            // 0 none, 1 gzip, 2 xz
    bool fd_output = false;
    std::vector<CDNS::BlockParameters> sets;     // parameter sets known at construction (>=1)
    std::vector<CDNS::BlockParameters> late_sets;  // candidates for add_block_parameters
    unsigned density_pm = 500;      // probability that an optional member is present
    unsigned pool = 4;              // size of the value pools (small => repeats => de-duplication)
    unsigned pool_pm = 700;         // probability of drawing from the pool instead of a fresh value
    unsigned big_pm = 0;            // probability of a large string
    unsigned stats_pm = 300;        // a buffer call carries statistics
    unsigned empty_stats_pm = 0;    // ... that are present but empty
    unsigned empty_struct_pm = 0;   // directly built blocks use present-but-empty structures
    bool private_version = true;
    uint8_t major = 1, minor = 0, priv = 1;
    // op mix (weights)
    unsigned w_qr = 10, w_aec = 3, w_mm = 3, w_write = 2, w_rotate = 1, w_add = 0, w_set = 0, w_ctr = 1, w_ext = 0, w_edit = 0;
    unsigned n_ops = 30;
    unsigned rotate_export_pm = 500;
    unsigned untimed_pm = 200;      // records without a timestamp
    bool force_storable = false;    // every query/response carries a member that no hint can exclude (preamble profile: a block must reach the file)
    bool long_run = false;          // P_LONG
    bool destroy_by_unwinding = false;   // the exporter is destroyed while an application exception propagates past it
    bool crash_mode = false;        // crash scenarios: named outputs, older files under target names, rotation onto existing / open names
    std::vector<std::string> ip_pool, name_pool, payload_pool;
    std::vector<CDNS::ClassType> ct_pool;
};

inline uint32_t hint_mask(Rng& r, unsigned bits) {
    uint32_t all = bits >= 32 ? ~0U : ((1U << bits) - 1);
    switch (r.below(6)) {
        case 0: case 1: return all;
        case 2: return all & ~(1U << r.below(bits));       // exactly one bit cleared
        case 3: return 1U << r.below(bits);                // exactly one bit set
        case 4: return 0;
        default: return (uint32_t)r.next() & all;
    }
}

// length of a free-text preamble member: mostly short; sometimes long enough to push the preamble over one 2048-byte encoder
// buffer; rarely longer than one 65535-byte decoder window
inline size_t text_len(Rng& r, size_t small) {
    if (r.chance(1, 12)) return (size_t)r.range(200, 3000);
    if (r.chance(1, 100)) return (size_t)r.range(22000, 30000);   // (characters; 1..4 bytes each: mostly beyond 65535 bytes)
    return (size_t)r.below(small);
}

inline CDNS::BlockParameters block_parameters(Rng& r, bool rich) {
    static const uint64_t tps[] = {1, 2, 1000, 1000000, 1000000000};
    // (the values from 2^32 up: a limit that only fits 64 bits must not be narrowed - such a block is never full)
    static const uint64_t maxi[] = {0, 1, 2, 3, 5, 8, 10000, 0, 1, 2, 3, 5, 8, 10000, 4294967296ULL, 4294967298ULL, 0xffffffffffffffffULL};
    CDNS::BlockParameters bp;
    auto& sp = bp.storage_parameters;
    sp.ticks_per_second = r.chance(1, 6) ? r.range(1, 1000000000) : r.pick(tps);
    sp.max_block_items = r.pick(maxi);
    sp.storage_hints.query_response_hints = hint_mask(r, 18);
    sp.storage_hints.query_response_signature_hints = hint_mask(r, 17);
    sp.storage_hints.rr_hints = (uint8_t)hint_mask(r, 2);
    sp.storage_hints.other_data_hints = r.chance(2, 3) ? 3 : (uint8_t)r.below(4);
    if (rich) {
        if (r.coin()) {
            sp.opcodes.clear();
            size_t n = r.below(6);
            for (size_t i = 0; i < n; i++) sp.opcodes.push_back((CDNS::OpCodes)uint_bits(r, 8));
        }
        if (r.coin()) {
            sp.rr_types.clear();
            size_t n = r.below(6);
            for (size_t i = 0; i < n; i++) sp.rr_types.push_back((CDNS::RrTypes)uint_bits(r, 16));
        }
        if (r.coin()) sp.storage_flags = (CDNS::StorageFlagsMask)uint_bits(r, 8);
        if (r.coin()) sp.client_address_prefix_ipv4 = (uint8_t)uint_bits(r, 8);
        if (r.coin()) sp.client_address_prefix_ipv6 = (uint8_t)uint_bits(r, 8);
        if (r.coin()) sp.server_address_prefix_ipv4 = (uint8_t)uint_bits(r, 8);
        if (r.coin()) sp.server_address_prefix_ipv6 = (uint8_t)uint_bits(r, 8);
        if (r.coin()) sp.sampling_method = utf8(r, text_len(r, 12));
        if (r.coin()) sp.anonymization_method = utf8(r, text_len(r, 12));
        unsigned cpk = (unsigned)r.below(4);  // absent / empty / partial / full
        if (cpk > 0) {
            CDNS::CollectionParameters cp;
            unsigned pm = cpk == 1 ? 0 : cpk == 2 ? 400 : 1000;
            auto on = [&] { return r.below(1000) < pm; };
            if (on()) cp.query_timeout = uint_bits(r, 64);
            if (on()) cp.skew_timeout = uint_bits(r, 64);
            if (on()) cp.snaplen = uint_bits(r, 64);
            if (on()) cp.promisc = r.coin();
            if (on()) { size_t n = r.range(1, 3); for (size_t i = 0; i < n; i++) cp.interfaces.push_back(utf8(r, r.below(8))); }
            if (on()) { size_t n = r.range(1, 3); for (size_t i = 0; i < n; i++) cp.server_address.push_back(bytes(r, r.coin() ? 4 : 16)); }
            if (on()) { size_t n = r.range(1, 3); for (size_t i = 0; i < n; i++) cp.vlan_ids.push_back((uint16_t)uint_bits(r, 16)); }
            if (on()) cp.filter = utf8(r, text_len(r, 20));
            if (on()) cp.generator_id = utf8(r, text_len(r, 20));
            if (on()) cp.host_id = utf8(r, text_len(r, 20));
            bp.collection_parameters = cp;
        }
    }
    return bp;
}

enum Profile { P_GENERAL, P_HINTS, P_ROTATE, P_FLUSH, P_TABLES, P_TIME, P_PREAMBLE, P_EMPTY, P_BIG, P_CRASH, P_FAULT, P_LONG };

inline Swarm swarm(uint64_t seed, Profile prof) {
    Rng r(sim::mix_str(seed, "swarm"));
    Swarm s;
    s.seed = seed;
    s.compression = (int)r.below(3);
    s.fd_output = r.chance(1, 3);
    size_t nsets = 1 + (r.chance(1, 2) ? r.below(4) : 0);
    bool rich = prof == P_PREAMBLE || r.chance(1, 4);
    for (size_t i = 0; i < nsets; i++) s.sets.push_back(block_parameters(r, rich));
    size_t nlate = r.below(3);
    for (size_t i = 0; i < nlate; i++) s.late_sets.push_back(block_parameters(r, rich));
    static const unsigned dens[] = {100, 500, 900, 1000};
    s.density_pm = r.pick(dens);
    s.pool = (unsigned)r.range(1, 6);
    s.pool_pm = r.coin() ? 800 : 300;
    s.big_pm = r.chance(1, 8) ? 30 : 0;
    s.stats_pm = r.coin() ? 300 : 0;
    s.n_ops = (unsigned)r.range(3, 60);
    s.private_version = r.chance(3, 4);
    if (r.chance(1, 4)) { s.major = (uint8_t)uint_bits(r, 8); s.minor = (uint8_t)uint_bits(r, 8); s.priv = (uint8_t)uint_bits(r, 8); }
    s.w_add = nlate ? 1 : 0;
    s.w_set = 1;
    switch (prof) {
        case P_HINTS: s.density_pm = 1000; s.w_rotate = 0; break;
        case P_ROTATE: s.w_rotate = 8; s.w_write = 3; s.w_add = nlate ? 2 : 0; s.w_set = 2; break;
        case P_FLUSH: {
            static const uint64_t m[] = {0, 1, 2, 3, 0, 1, 2, 3, 0, 1, 2, 3, 4294967297ULL};
            for (auto& bp : s.sets) bp.storage_parameters.max_block_items = r.pick(m);
            for (auto& bp : s.late_sets) bp.storage_parameters.max_block_items = r.pick(m);
            s.w_set = 3; s.w_ctr = 4; s.pool = (unsigned)r.range(1, 3);
            break;
        }
        case P_TABLES: s.pool = (unsigned)r.range(1, 3); s.pool_pm = 900; s.density_pm = r.coin() ? 900 : 500; s.w_rotate = 0; break;
        case P_TIME: s.untimed_pm = 300; s.w_mm = 8; break;
        case P_PREAMBLE: s.n_ops = (unsigned)r.range(2, 6); s.force_storable = true; s.w_qr = 14; break;
        case P_EMPTY: s.empty_stats_pm = 500; s.stats_pm = 600; s.empty_struct_pm = 500; s.w_ext = 6; break;
        case P_BIG: s.big_pm = 120; s.n_ops = (unsigned)r.range(10, 40); break;
        case P_LONG: {
            // one output that receives more than 2^16 blocks (counters narrower than size_t wrap here); tiny records, tiny blocks
            s.sets.resize(1);
            s.late_sets.clear();
            s.sets[0] = CDNS::BlockParameters();   // (no optional members: this profile is about counters, and 65 536 blocks are compared one by one)
            s.sets[0].storage_parameters.ticks_per_second = r.pick(std::vector<uint64_t>{1, 1000, 1000000});
            s.sets[0].storage_parameters.max_block_items = 1;
            s.sets[0].storage_parameters.storage_hints = CDNS::StorageHints();
            s.density_pm = 0; s.stats_pm = 0; s.big_pm = 0; s.untimed_pm = 1000; s.force_storable = true;
            s.w_qr = 1; s.w_aec = 0; s.w_mm = 0; s.w_write = 0; s.w_rotate = 0; s.w_add = 0; s.w_set = 0; s.w_ctr = 0; s.w_ext = 0; s.w_edit = 0;
            s.n_ops = 65536 + (unsigned)r.range(1, 300);
            s.long_run = true;
            break;
        }
        case P_CRASH: s.crash_mode = true; s.n_ops = (unsigned)r.range(2, 14); s.w_rotate = 5; s.fd_output = false; s.big_pm = r.chance(1, 4) ? 60 : 0; break;
        case P_FAULT: s.crash_mode = !s.fd_output; s.n_ops = (unsigned)r.range(2, 16); s.w_rotate = 4; s.w_write = 4; s.big_pm = r.chance(1, 3) ? 80 : 0; s.w_add = 0; break;
        default: break;
    }
    if (prof != P_EMPTY && prof != P_LONG && r.chance(1, 5)) s.w_ext = 2;
    s.destroy_by_unwinding = r.chance(1, 3);
    if (prof != P_LONG && (prof == P_HINTS || prof == P_ROTATE || r.chance(1, 6))) { s.w_edit = 2; if (prof == P_HINTS) s.w_rotate = 2; }
    if (prof == P_FAULT) s.w_ext = 0;
    for (unsigned i = 0; i < s.pool; i++) {
        s.ip_pool.push_back(bytes(r, r.chance(1, 8) ? r.below(20) : (r.coin() ? 4 : 16)));
        s.name_pool.push_back(bytes(r, string_len(r, 0)));
        s.payload_pool.push_back(bytes(r, string_len(r, 0)));
        CDNS::ClassType ct;
        ct.type = (uint16_t)uint_bits(r, 16);
        ct.class_ = (uint16_t)uint_bits(r, 16);
        s.ct_pool.push_back(ct);
    }
    return s;
}

// -------------------------------------------------------------------------------------------
struct RecGen {
    const Swarm& sw;
    Rng r;
    RecGen(const Swarm& s, uint64_t seed) : sw(s), r(seed) {}
    bool on() { return r.below(1000) < sw.density_pm; }
    std::string ip() { return r.below(1000) < sw.pool_pm ? r.pick(sw.ip_pool) : bytes(r, r.coin() ? 4 : 16); }
    std::string name() { return r.below(1000) < sw.pool_pm ? r.pick(sw.name_pool) : bytes(r, string_len(r, sw.big_pm)); }
    std::string payload() { return r.below(1000) < sw.pool_pm ? r.pick(sw.payload_pool) : bytes(r, string_len(r, sw.big_pm)); }
    CDNS::ClassType ct() {
        if (r.below(1000) < sw.pool_pm) return r.pick(sw.ct_pool);
        CDNS::ClassType c;
        c.type = (uint16_t)uint_bits(r, 16);
        c.class_ = (uint16_t)uint_bits(r, 16);
        return c;
    }
    // timestamp valid for tick rate tps: ticks < tps and secs*tps+ticks < 2^63
    CDNS::Timestamp ts(uint64_t tps) {
        static const uint64_t se[] = {0, 1, 59, 0x7fffffffULL, 0x80000000ULL, 0xffffffffULL, 0x100000000ULL, 9223372035ULL};
        uint64_t lim = ((1ULL << 63) - 1) / tps;      // secs <= lim-1 keeps secs*tps+ticks < 2^63
        uint64_t secs;
        switch (r.below(4)) {
            case 0: secs = r.pick(se); break;
            case 1: secs = lim > 0 ? lim - 1 - r.below(3 < lim ? 3 : lim) : 0; break;
            case 2: secs = 1700000000ULL + r.below(100); break;
            default: secs = r.next() >> r.range(1, 63); break;
        }
        if (lim == 0) secs = 0; else if (secs > lim - 1) secs = lim - 1;
        uint64_t ticks;
        switch (r.below(3)) {
            case 0: ticks = 0; break;
            case 1: ticks = tps - 1; break;
            default: ticks = r.below(tps); break;
        }
        return CDNS::Timestamp(secs, ticks);
    }
    std::vector<CDNS::GenericResourceRecord> rrlist(bool question) {
        std::vector<CDNS::GenericResourceRecord> v;
        size_t n = r.chance(1, 6) ? 0 : r.range(1, 3);
        for (size_t i = 0; i < n; i++) {
            CDNS::GenericResourceRecord g;
            g.name = name();
            g.classtype = ct();
            if (!question) {
                if (on()) g.ttl = (uint32_t)uint_bits(r, 32);
                if (on()) g.rdata = name();
            }
            v.push_back(g);
        }
        return v;
    }
    CDNS::GenericQueryResponse qr(uint64_t tps) {
        CDNS::GenericQueryResponse g;
        bool timed = r.below(1000) >= sw.untimed_pm;
        CDNS::Timestamp t = ts(tps);
        if (timed) g.ts = t;
        if (on()) g.client_ip = ip();
        if (on()) g.client_port = (uint16_t)uint_bits(r, 16);
        if (on()) g.transaction_id = (uint16_t)uint_bits(r, 16);
        if (on()) g.server_ip = ip();
        if (on()) g.server_port = (uint16_t)uint_bits(r, 16);
        if (on()) g.qr_transport_flags = (CDNS::QueryResponseTransportFlagsMask)uint_bits(r, 8);
        if (on()) g.qr_type = (CDNS::QueryResponseTypeValues)uint_bits(r, 8);
        if (on()) g.qr_sig_flags = (CDNS::QueryResponseFlagsMask)uint_bits(r, 8);
        if (on()) g.query_opcode = (uint8_t)uint_bits(r, 8);
        if (on()) g.qr_dns_flags = (CDNS::DNSFlagsMask)uint_bits(r, 16);
        if (on()) g.query_rcode = (uint16_t)uint_bits(r, 16);
        if (on()) g.query_classtype = ct();
        if (on()) g.query_qdcount = (uint16_t)uint_bits(r, 16);
        if (on()) g.query_ancount = (uint16_t)uint_bits(r, 16);
        if (on()) g.query_nscount = (uint16_t)uint_bits(r, 16);
        if (on()) g.query_arcount = (uint16_t)uint_bits(r, 16);
        if (on()) g.query_edns_version = (uint8_t)uint_bits(r, 8);
        if (on()) g.query_udp_size = (uint16_t)uint_bits(r, 16);
        if (on()) g.query_opt_rdata = name();
        if (on()) g.response_rcode = (uint16_t)uint_bits(r, 16);
        if (on()) g.client_hoplimit = (uint8_t)uint_bits(r, 8);
        if (on()) g.response_delay = int64_any(r);
        if (on()) g.query_name = name();
        if (on()) g.query_size = (std::size_t)uint_bits(r, 64);
        if (on()) g.response_size = (std::size_t)uint_bits(r, 64);
        if (on()) g.bailiwick = name();
        if (on()) g.processing_flags = (CDNS::ResponseProcessingFlagsMask)uint_bits(r, 8);
        if (on()) g.query_questions = rrlist(true);
        if (on()) g.query_answers = rrlist(false);
        if (on()) g.query_authority = rrlist(false);
        if (on()) g.query_additional = rrlist(false);
        if (on()) g.response_questions = rrlist(true);
        if (on()) g.response_answers = rrlist(false);
        if (on()) g.response_authority = rrlist(false);
        if (on()) g.response_additional = rrlist(false);
        if (r.below(1000) < sw.density_pm / 3) g.asn = utf8(r, r.below(8));
        if (r.below(1000) < sw.density_pm / 3) g.country_code = utf8(r, r.below(4));
        if (r.below(1000) < sw.density_pm / 3) g.round_trip_time = int64_any(r);
        return g;
    }
    CDNS::GenericAddressEventCount aec() {
        CDNS::GenericAddressEventCount a;
        a.ae_type = (CDNS::AddressEventTypeValues)(r.chance(1, 5) ? uint_bits(r, 8) : r.below(6));
        if (r.below(1000) < sw.density_pm / 2) a.ae_code = (uint8_t)(r.coin() ? r.below(3) : uint_bits(r, 8));
        if (r.below(1000) < sw.density_pm / 2) a.ae_transport_flags = (CDNS::QueryResponseTransportFlagsMask)(r.coin() ? r.below(3) : uint_bits(r, 8));
        a.ip_address = r.pick(sw.ip_pool);
        // the count member of the generic structure is an output of the reader; on input every call counts one event whatever it holds
        if (r.coin()) a.ae_count = r.coin() ? r.below(5) : uint_bits(r, 64);
        return a;
    }
    CDNS::GenericMalformedMessage mm(uint64_t tps) {
        CDNS::GenericMalformedMessage m;
        bool timed = r.below(1000) >= sw.untimed_pm;
        CDNS::Timestamp t = ts(tps);
        if (timed) m.ts = t;
        if (on()) m.client_ip = ip();
        if (on()) m.client_port = (uint16_t)uint_bits(r, 16);
        if (on()) m.server_ip = ip();
        if (on()) m.server_port = (uint16_t)uint_bits(r, 16);
        if (on()) m.mm_transport_flags = (CDNS::QueryResponseTransportFlagsMask)uint_bits(r, 8);
        if (on()) m.mm_payload = payload();
        return m;
    }
    // mode: 0 partial, 1 full, 2 present-but-empty
    CDNS::BlockStatistics stats(int mode) {
        CDNS::BlockStatistics b;
        auto yes = [&] { return mode == 1 || (mode == 0 && r.coin()); };
        if (yes()) b.processed_messages = (unsigned)uint_bits(r, 32);
        if (yes()) b.qr_data_items = (unsigned)uint_bits(r, 32);
        if (yes()) b.unmatched_queries = (unsigned)uint_bits(r, 32);
        if (yes()) b.unmatched_responses = (unsigned)uint_bits(r, 32);
        if (yes()) b.discarded_opcode = (unsigned)uint_bits(r, 32);
        if (yes()) b.malformed_items = (unsigned)uint_bits(r, 32);
        return b;
    }
};

}  // namespace gen
