// Tools engine (C18): cdns-merge and cdns-itemcount run in-process on SimFS over tuples of input files that are
// valid, missing, empty, truncated (EOF fault), failing part-way (EIO), version-mismatched or listed twice.
// Oracle: independent parse (RefCDNS) of inputs and output.
#include "pipeline.h"
#include "tools.h"

using namespace sim;

namespace {

struct Input {
    std::string path, kind;
    std::string bytes;          // what SimFS holds
    bool present = true;
    long cut = -1;              // truncation / EIO offset
    bool eio = false;
    ref::RFile rf;              // parse of the intact image (valid kinds only)
    bool parsed = false;
};

std::string block_canon(const ref::RBlock& b) {
    std::string s;
    for (auto& q : b.qr) s += "Q{" + ref::dump(q) + "}";
    std::map<std::string, uint64_t> a;
    for (auto& x : b.aec) a[ref::dump(x.first)] += x.second;
    for (auto& kv : a) s += "A{" + kv.first + "#" + std::to_string(kv.second) + "}";
    for (auto& q : b.mm) s += "M{" + ref::dump(q) + "}";
    if (b.has_stats && !b.stats.empty()) s += "S{" + ref::dump(b.stats) + "}";
    return s;
}
std::string params_canon(const ref::RParams& p) {
    return ref::dump(p.storage) + (p.has_collection ? "|CP{" + ref::dump(p.collection) + "}" : "");
}

// change the format version of a valid file (preferred re-encoding of the edited tree)
std::string with_version(const std::string& file, int which, uint64_t value, bool drop_private) {
    ref::Node root = ref::Decoder(file).parse_all();
    ref::Node& pre = root.kids.at(1);
    bool found = false;
    for (size_t i = 0; i + 1 < pre.kids.size(); i += 2)
        if (pre.kids[i].is_uint() && pre.kids[i].arg == (uint64_t)which) {
            if (which == 2 && drop_private) { pre.kids.erase(pre.kids.begin() + i, pre.kids.begin() + i + 2); }
            else pre.kids[i + 1] = ref::Node::uint_(value);
            found = true;
            break;
        }
    if (!found && which == 2 && !drop_private) pre.put(2, ref::Node::uint_(value));
    return ref::encode_preferred(root);
}

// the same capture settings on another host: Storage parameters untouched, one member of every Collection parameters map
// changed (or the map added) - two inputs that a merge must keep apart although their Storage parameters are equal
std::string with_other_collection(const std::string& file, unsigned member, const std::string& text, uint64_t number) {
    ref::Node root = ref::Decoder(file).parse_all();
    ref::Node& pre = root.kids.at(1);
    ref::Node value = (member == 8 || member == 9 || member == 7) ? ref::Node::text_(text) : ref::Node::uint_(number);
    for (size_t i = 0; i + 1 < pre.kids.size(); i += 2) {
        if (!(pre.kids[i].is_uint() && pre.kids[i].arg == 3)) continue;
        for (ref::Node& bp : pre.kids[i + 1].kids) {
            ref::Node* cp = nullptr;
            for (size_t j = 0; j + 1 < bp.kids.size(); j += 2)
                if (bp.kids[j].is_uint() && bp.kids[j].arg == 1) cp = &bp.kids[j + 1];
            if (!cp) { ref::Node m = ref::Node::map_(); m.put((int64_t)member, value); bp.put(1, m); continue; }
            bool found = false;
            for (size_t j = 0; j + 1 < cp->kids.size(); j += 2)
                if (cp->kids[j].is_uint() && cp->kids[j].arg == member) { cp->kids[j + 1] = value; found = true; }
            if (!found) cp->put((int64_t)member, value);
        }
    }
    return ref::encode_preferred(root);
}

}  // namespace

void sim::engine_tools(RunCtx& cx) {
    Rng r(mix_str(cx.seed, "tools"));
    simfs::FS& F = simfs::fs();
    // ---- the input tuple (its members are the ops of the plan) --------------------------------------------------
    unsigned n = (unsigned)r.range(1, 6);
    std::vector<Input> all;
    // all valid members share one format version (a merge of really different producers is what version checks are for)
    for (unsigned k = 0; k < n; k++) {
        Input in;
        in.path = "/sim/in" + std::to_string(k);
        std::vector<std::string> files = ppl::produce_files(mix64(cx.seed, 7000 + k), r.chance(1, 3) ? "C13" : "C01");
        unsigned kind = (unsigned)r.below(12);
        if (files.empty()) kind = 1;
        std::string file = files.empty() ? std::string() : files[r.below(files.size())];
        if (!file.empty()) {
            // normalise the version triple so that "mismatch" is under the plan's control
            file = with_version(with_version(with_version(file, 0, 1, false), 1, 0, false), 2, 1, false);
        }
        switch (kind) {
            case 0: in.kind = "missing"; in.present = false; break;
            case 1: in.kind = "empty"; in.bytes.clear(); break;
            case 2: in.kind = "truncated"; in.bytes = file; in.cut = (long)r.below(file.size() + 1); break;
            case 3: in.kind = "eio"; in.bytes = file; in.cut = (long)r.below(file.size() + 1); in.eio = true; break;
            case 4: {
                in.kind = "version-mismatch";
                unsigned which = (unsigned)r.below(4);
                in.bytes = which == 3 ? with_version(file, 2, 0, true) : with_version(file, (int)which, which == 2 ? 2 + r.below(200) : (which == 0 ? 2 + r.below(200) : 1 + r.below(200)), false);
                in.kind += which == 0 ? "-major" : which == 1 ? "-minor" : which == 2 ? "-private" : "-private-absent";
                break;
            }
            case 5: if (!all.empty()) { in = all[r.below(all.size())]; in.kind = "listed-twice(" + in.kind + ")"; break; }
                    // fallthrough
            case 6: case 7: {
                // an earlier valid input once more, as captured on another host: equal Storage, other Collection parameters
                std::vector<size_t> cand;
                for (size_t j = 0; j < all.size(); j++) if (all[j].kind.compare(0, 5, "valid") == 0 && !all[j].bytes.empty()) cand.push_back(j);
                if (kind != 5 && !cand.empty()) {
                    static const unsigned MEMBER[] = {9, 9, 8, 7, 0, 1, 2, 2};
                    unsigned member = MEMBER[r.below(8)];
                    try {
                        in.bytes = with_other_collection(all[cand[r.below(cand.size())]].bytes, member, "other-host-" + std::to_string(k), 77000 + k);
                        in.kind = "valid-same-storage-other-collection";
                        cx.ctr->add("probe.input_same_storage_other_collection");
                        break;
                    } catch (std::exception&) {}
                }
                in.kind = "valid"; in.bytes = file; break;
            }
            default: in.kind = "valid"; in.bytes = file; break;
        }
        // a quarter of the valid inputs come from a producer that does not de-duplicate its block tables (equal entries, references
        // spread over them): the merged file must still resolve every record to the same values
        if (in.kind == "valid" && !in.bytes.empty() && r.chance(1, 4)) {
            try {
                ref::Node root = ref::Decoder(in.bytes).parse_all();
                Rng q(mix64(cx.seed, 7500 + k));
                if (ref::duplicate_table_entries(root, q)) { in.bytes = ref::encode_preferred(root); in.kind = "valid-duplicate-table-entries"; cx.ctr->add("probe.input_with_duplicate_table_entries"); }
            } catch (std::exception&) {}
        }
        // a quarter of the valid inputs come from a producer that leaves out the optional block-parameters index where it is 0
        // (RFC 8618: absent means 0): such a block must still end up under parameters equal to its source's
        if (in.kind.compare(0, 5, "valid") == 0 && !in.bytes.empty() && r.chance(1, 4)) {
            try {
                ref::Node root = ref::Decoder(in.bytes).parse_all();
                unsigned dropped = 0;
                for (ref::Node& blk : root.kids.at(2).kids)
                    for (size_t i = 0; i + 1 < blk.kids.size(); i += 2) {
                        if (!(blk.kids[i].is_uint() && blk.kids[i].arg == 0)) continue;
                        ref::Node& bpre = blk.kids[i + 1];
                        for (size_t j = 0; j + 1 < bpre.kids.size(); j += 2)
                            if (bpre.kids[j].is_uint() && bpre.kids[j].arg == 1 && bpre.kids[j + 1].is_uint() && bpre.kids[j + 1].arg == 0) {
                                bpre.kids.erase(bpre.kids.begin() + j, bpre.kids.begin() + j + 2);
                                dropped++;
                                break;
                            }
                    }
                if (dropped) { in.bytes = ref::encode_preferred(root); in.kind += "-index-omitted"; cx.ctr->add("probe.input_with_omitted_parameters_index"); }
            } catch (std::exception&) {}
        }
        if (in.present && !in.bytes.empty() && in.kind.find("listed-twice") == std::string::npos) {
            try { in.rf = ref::Interp::file(in.bytes); in.parsed = true; } catch (std::exception&) { in.parsed = false; }
        }
        all.push_back(in);
    }
    cx.n_ops = n;
    std::vector<Input> ins;
    for (unsigned k = 0; k < n; k++) if (cx.kept(k)) ins.push_back(all[k]);
    if (ins.empty()) return;
    F.reset();
    F.log = &cx.log;
    F.ctr = cx.ctr;
    std::vector<std::string> args = {"cdns-merge", "-o", "/sim/merged"};
    for (auto& in : ins) {
        if (in.present) {
            F.put(in.path, in.bytes);
            if (in.cut >= 0) {
                simfs::RPolicy rp;
                if (in.eio) rp.eio_at = in.cut; else rp.eof_at = in.cut;
                rp.max_chunk = r.coin() ? 0 : 1 + (size_t)r.below(70000);
                rp.seed = r.next();
                F.rpolicy_by_path[in.path] = rp;
            }
        }
        args.push_back(in.path);
        cx.tag(in.kind.substr(0, in.kind.find('(')));
        if (cx.describe) cx.description += in.path + "=" + in.kind + (in.cut >= 0 ? "@" + std::to_string(in.cut) + "/" + std::to_string(in.bytes.size()) : "") + " ";
        cx.log.ev("INPUT " + in.path + " " + in.kind + " " + std::to_string(in.cut));
    }
    // ---- run cdns-merge ---------------------------------------------------------------------------------------------
    tools::Result res = tools::run(cdns_merge_main, args);
    if (res.escaped) { cx.violation("C18", "C18/I27/merge-exception-escaped", "cdns-merge: exception left main(): " + res.escaped_what); F.reset(); F.log = nullptr; return; }
    // ---- expectation ------------------------------------------------------------------------------------------------------
    struct Exp { std::string content, params; std::string from; };
    struct Seg { std::vector<Exp> must, may; };
    std::vector<Seg> segs;
    // per input: parse (of the intact image), where its header ends, how many bytes are delivered
    struct Info { const ref::RFile* rf = nullptr; ref::RFile own; size_t header_end = 0, avail = 0; bool header_ok = false, eio_maybe = false; };
    std::vector<Info> info(ins.size());
    bool has_mismatch_kind = false;
    for (size_t k = 0; k < ins.size(); k++) {
        Input& in = ins[k];
        Info& I = info[k];
        if (in.kind.compare(0, 16, "version-mismatch") == 0 || in.kind.find("(version-mismatch") != std::string::npos) has_mismatch_kind = true;
        if (!in.present || in.bytes.empty()) continue;
        if (in.parsed) I.rf = &in.rf;
        else { try { I.own = ref::Interp::file(in.bytes); I.rf = &I.own; } catch (std::exception&) {} }
        if (!I.rf) continue;
        I.header_end = I.rf->blocks_array_off + 1;   // exporter-made block arrays are indefinite (1-byte head); re-encoded ones have a definite head
        uint8_t hb = (uint8_t)in.bytes[I.rf->blocks_array_off];
        if (hb != 0x9f) { uint8_t ai = hb & 31; I.header_end = I.rf->blocks_array_off + 1 + (ai < 24 ? 0 : (size_t)1 << (ai - 24)); }
        I.avail = in.cut >= 0 ? (size_t)in.cut : in.bytes.size();
        // with an I/O error libstdc++ discards everything the failing read() had fetched: such an input contributes a prefix
        // of the blocks lying before the error, possibly nothing, and whether even its header got through depends on chunking
        I.header_ok = !in.eio && I.avail >= I.header_end;
        I.eio_maybe = in.eio && I.avail >= I.header_end;
    }
    bool have_first = false;
    uint64_t v_major = 0, v_minor = 0, v_priv = 0;
    bool v_has_priv = false;
    for (size_t k = 0; k < ins.size(); k++) {
        if (info[k].eio_maybe && !have_first && has_mismatch_kind) {
            // which input is "the first readable one" (the version reference) would depend on chunking: not judged
            cx.ctr->add("probe.ambiguous_version_reference_skipped");
            F.reset(); F.log = nullptr;
            return;
        }
        if (info[k].header_ok && !have_first) {
            have_first = true;
            v_major = info[k].rf->major; v_minor = info[k].rf->minor; v_priv = info[k].rf->priv; v_has_priv = info[k].rf->has_private;
        }
    }
    for (size_t k = 0; k < ins.size(); k++) {
        Seg sg;
        Info& I = info[k];
        if (I.rf && (I.header_ok || I.eio_maybe)) {
            const ref::RFile* rf = I.rf;
            bool mismatch = have_first && (rf->major != v_major || rf->minor != v_minor || rf->has_private != v_has_priv || (v_has_priv && rf->priv != v_priv));
            if (!mismatch)
                for (auto& b : rf->blocks) {
                    if (b.end > I.avail) continue;
                    Exp e;
                    e.content = block_canon(b);
                    e.params = params_canon(rf->params[b.bp_index]);
                    e.from = ins[k].path;
                    (ins[k].eio ? sg.may : sg.must).push_back(e);
                }
        }
        segs.push_back(sg);
    }
    // ---- the output -------------------------------------------------------------------------------------------------------------
    std::string out = F.exists("/sim/merged") ? F.get("/sim/merged") : std::string();
    size_t must_total = 0;
    for (auto& s : segs) must_total += s.must.size();
    std::vector<Exp> got;
    if (out.empty()) {
        if (must_total) cx.violation("C18", "C18/I27/merge-output-empty", "cdns-merge produced no data although " + std::to_string(must_total) + " blocks were expected; stderr: " + res.err.substr(0, 200));
    } else {
        try {
            ref::RFile of = ref::Interp::file(out);
            if (have_first && (of.major != v_major || of.minor != v_minor)) cx.violation("C18", "C18/I27/merge-output-version", "output version differs from the first readable input's");
            for (auto& b : of.blocks) { Exp e; e.content = block_canon(b); e.params = params_canon(of.params[b.bp_index]); got.push_back(e); }
        } catch (std::exception& e) {
            cx.violation("C18", "C18/I27/merge-output-invalid", std::string("cdns-merge output is not a valid C-DNS file: ") + e.what());
            F.reset(); F.log = nullptr;
            return;
        }
    }
    // match: for each segment its `must` blocks in order, then a prefix of its `may` blocks
    size_t g = 0;
    bool ok = true;
    for (size_t si = 0; si < segs.size() && ok; si++) {
        Seg& s = segs[si];
        for (auto& e : s.must) {
            if (g >= got.size()) { cx.violation("C18", "C18/I27/merge-block-missing", "output ends after " + std::to_string(got.size()) + " blocks; a block of " + e.from + " is missing (" + ins[si].kind + ")"); ok = false; break; }
            if (got[g].content != e.content) {
                // is it a block that should not be there at all?
                cx.violation("C18", "C18/I27/merge-block-differs", "output block " + std::to_string(g) + " is not the expected block of " + e.from + " (" + ins[si].kind + ")");
                ok = false; break;
            }
            if (got[g].params != e.params) { cx.violation("C18", "C18/I27/merge-block-parameters-differ", "output block " + std::to_string(g) + " (from " + e.from + ") refers to block parameters different from its source's"); ok = false; break; }
            g++;
        }
        for (auto& e : s.may) { if (g < got.size() && got[g].content == e.content && got[g].params == e.params) g++; else break; }
    }
    if (ok && g < got.size()) {
        // extra blocks: name the culprit class if it is a whole input that should have contributed nothing
        std::string why = "output holds " + std::to_string(got.size() - g) + " blocks more than the readable, version-matching inputs contain";
        std::string cls = "C18/I27/merge-extra-blocks";
        for (auto& in : ins) if (in.kind.compare(0, 16, "version-mismatch") == 0 && in.parsed) {
            for (auto& b : in.rf.blocks) if (g < got.size() && block_canon(b) == got[g].content) { cls = "C18/I27/mismatched-input-contributes"; why = "blocks of " + in.path + " (" + in.kind + ") were merged although its format version differs from the first readable input's"; }
        }
        cx.violation("C18", cls, why);
    }
    if (ok && g == got.size() && must_total) cx.ctr->add("merges_verified");
    cx.ctr->add("merge_blocks_expected", must_total);
    // ---- cdns-itemcount on the merged file and on each valid input ---------------------------------------------------------------
    auto count_check = [&](const std::string& path, const std::string& bytes) {
        ref::RFile rf;
        try { rf = ref::Interp::file(bytes); } catch (std::exception&) { return; }
        F.put("/sim/count", bytes);
        static const char* OPT[4][3] = {{nullptr, nullptr, nullptr}, {"-b", nullptr, nullptr}, {"-p", nullptr, nullptr}, {"-b", "-p", nullptr}};
        for (int o = 0; o < 4; o++) {
            std::vector<std::string> a = {"cdns-itemcount"};
            for (int k = 0; OPT[o][k]; k++) a.push_back(OPT[o][k]);
            a.push_back("/sim/count");
            tools::Result cr = tools::run(cdns_itemcount_main, a);
            if (cr.escaped) { cx.violation("C18", "C18/I27/itemcount-exception-escaped", cr.escaped_what); continue; }
            // all numbers that follow a ':' or stand alone on a line
            std::vector<uint64_t> nums;
            std::istringstream is(cr.out);
            std::string line;
            while (std::getline(is, line)) {
                size_t c = line.rfind(':');
                std::string t = c == std::string::npos ? line : line.substr(c + 1);
                size_t p = t.find_first_of("0123456789");
                if (p != std::string::npos) nums.push_back(strtoull(t.c_str() + p, nullptr, 10));
            }
            std::vector<uint64_t> want;
            bool perblock = o == 1 || o == 3, pretty = o >= 2;
            if (perblock) {
                for (size_t k = 0; k < rf.blocks.size(); k++) {
                    if (pretty) want.push_back(k);
                    want.push_back(rf.blocks[k].qr.size()); want.push_back(rf.blocks[k].aec.size()); want.push_back(rf.blocks[k].mm.size());
                }
            } else {
                uint64_t q = 0, a2 = 0, m = 0;
                for (auto& b : rf.blocks) { q += b.qr.size(); a2 += b.aec.size(); m += b.mm.size(); }
                want = {q, a2, m};
            }
            if (nums != want) {
                std::string ws, gs;
                for (auto x : want) ws += std::to_string(x) + " ";
                for (auto x : nums) gs += std::to_string(x) + " ";
                cx.violation("C18", std::string("C18/I27/itemcount-wrong/") + (perblock ? "per-block" : "total"), path + " with options " + (OPT[o][0] ? OPT[o][0] : "") + (OPT[o][1] ? OPT[o][1] : "") + ": printed " + gs.substr(0, 200) + "independent counts " + ws.substr(0, 200));
            } else cx.ctr->add("itemcounts_verified");
        }
    };
    if (!out.empty()) count_check("/sim/merged", out);
    for (auto& in : ins) if (in.kind == "valid") { count_check(in.path, in.bytes); break; }
    cx.nontrivial = must_total > 0;
    cx.state_key = std::to_string(ins.size()) + ",";
    for (auto& in : ins) cx.state_key += in.kind.substr(0, 4) + ",";
    F.reset();
    F.log = nullptr;
}
