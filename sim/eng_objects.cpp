// Objects engine: in-memory clauses that sit behind the simulated pipeline (no environment fault; see DESIGN.md §1.1):
//   C17 (b) timestamp arithmetic against a 128-bit model
//   C11 (b) interleaved add/get/find/clear on the nine block tables against a table model
//   C19     value semantics of blocks: a "transformer" task copies/moves blocks, the source is modified / cleared /
//           destroyed at seeded points, the copy must behave like a freshly built block (ASan makes dangling use visible)
#include "pipeline.h"
#include <memory>

using namespace sim;

namespace {

// ---------------------------------------------------------------------------------------------------------------
// C17 (b)
struct TsCase { uint64_t secs, ticks, rsecs, rticks, tps; };

void check_ts_case(RunCtx& cx, const TsCase& c, const std::string& how) {
    typedef __int128 I;
    I a = (I)c.secs * c.tps + c.ticks, b = (I)c.rsecs * c.tps + c.rticks;
    std::string cs = "(" + std::to_string(c.secs) + "," + std::to_string(c.ticks) + ") ref (" + std::to_string(c.rsecs) + "," + std::to_string(c.rticks) + ") tps " + std::to_string(c.tps) + " [" + how + "]";
    CDNS::Timestamp t(c.secs, c.ticks), ref(c.rsecs, c.rticks);
    int64_t off;
    try {
        off = t.get_time_offset(ref, c.tps);
    } catch (std::exception& e) {
        cx.violation("C17", "C17/I21/offset-threw", cs + ": get_time_offset threw " + e.what());
        return;
    }
    if ((I)off != a - b) { cx.violation("C17", "C17/I21/offset-not-exact", cs + ": offset " + std::to_string(off) + ", exact difference " + std::to_string((long long)(a - b))); return; }
    if (t.m_secs != c.secs || t.m_ticks != c.ticks || ref.m_secs != c.rsecs || ref.m_ticks != c.rticks)
        cx.violation("C17", "C17/I21/offset-modified-operands", cs);
    // adding the offset back to the reference reproduces the instant, normalised
    CDNS::Timestamp back = ref;
    try {
        back.add_time_offset(off, c.tps);
        I tot = (I)back.m_secs * c.tps + back.m_ticks;
        if (tot != a || back.m_ticks >= c.tps)
            cx.violation("C17", "C17/I21/add-not-inverse", cs + ": ref + offset = (" + std::to_string(back.m_secs) + "," + std::to_string(back.m_ticks) + ")");
    } catch (std::exception& e) {
        cx.violation("C17", "C17/I21/add-not-inverse", cs + ": adding the offset back threw " + e.what());
    }
    // comparison operators order by instant (normalised operands only)
    if (c.ticks < c.tps && c.rticks < c.tps) {
        if ((t < ref) != (a < b)) cx.violation("C17", "C17/I21/less-than", cs);
        if ((t <= ref) != (a <= b)) cx.violation("C17", "C17/I21/less-or-equal", cs);
        if ((ref < t) != (b < a)) cx.violation("C17", "C17/I21/less-than", cs + " (swapped)");
        if ((ref <= t) != (b <= a)) cx.violation("C17", "C17/I21/less-or-equal", cs + " (swapped)");
    }
    cx.ctr->add("timestamp_cases");
}

void check_add(RunCtx& cx, uint64_t secs, uint64_t ticks, int64_t off, uint64_t tps) {
    typedef __int128 I;
    std::string cs = "(" + std::to_string(secs) + "," + std::to_string(ticks) + ") + " + std::to_string(off) + " at tps " + std::to_string(tps);
    CDNS::Timestamp t(secs, ticks);
    bool threw = false;
    try { t.add_time_offset(off, tps); } catch (std::runtime_error&) { threw = true; }
    catch (std::exception& e) { cx.violation("C17", "C17/I21/add-wrong-exception", cs + ": " + e.what()); return; }
    if (tps == 0) {
        if (!threw) cx.violation("C17", "C17/I21/add-at-rate-0-accepted", cs);
        else if (t.m_secs != secs || t.m_ticks != ticks) cx.violation("C17", "C17/I21/refused-add-modified-value", cs);
        cx.ctr->add("probe.add_at_rate_zero");
        return;
    }
    I base = (I)secs * tps + ticks, res = base + off;
    if (res < 0) {
        if (!threw) cx.violation("C17", "C17/I21/add-before-epoch-accepted", cs + " gave (" + std::to_string(t.m_secs) + "," + std::to_string(t.m_ticks) + ")");
        else if (t.m_secs != secs || t.m_ticks != ticks) cx.violation("C17", "C17/I21/refused-add-modified-value", cs);
        cx.ctr->add("probe.add_before_epoch_refused");
    } else {
        if (threw) cx.violation("C17", "C17/I21/valid-add-refused", cs);
        else if ((I)t.m_secs * tps + t.m_ticks != res || t.m_ticks >= tps)
            cx.violation("C17", "C17/I21/add-wrong-result", cs + " gave (" + std::to_string(t.m_secs) + "," + std::to_string(t.m_ticks) + ")");
    }
    if (off == INT64_MIN) cx.ctr->add("probe.offset_int64_min");
    cx.ctr->add("timestamp_cases");
}

void run_timestamps(RunCtx& cx) {
    Rng r(mix_str(cx.seed, "ts"));
    // ops of the plan: 0 = the exhaustive small grid slice, 1.. = seeded / boundary cases
    cx.n_ops = 64;
    if (cx.kept(0)) {
        // small exhaustive grid (every run re-checks it for its own tick rate: cheap, and keeps the core in every batch)
        uint64_t tps = 1 + (cx.seed % 7);
        for (uint64_t s = 0; s < 4; s++) for (uint64_t t = 0; t < tps; t++) for (uint64_t rs = 0; rs < 4; rs++) for (uint64_t rt = 0; rt < tps; rt++)
            check_ts_case(cx, {s, t, rs, rt, tps}, "grid");
        for (uint64_t s = 0; s < 3; s++) for (uint64_t t = 0; t < tps; t++) for (int64_t off = -(int64_t)(4 * tps); off <= (int64_t)(4 * tps); off++) check_add(cx, s, t, off, tps);
        cx.ctr->add("probe.exhaustive_grid_done");
    }
    static const uint64_t TPS[] = {1, 2, 1000, 1000000, 1000000000};
    static const int64_t OFFS[] = {0, 1, -1, INT64_MAX, INT64_MIN, INT64_MIN + 1, -1000000000LL, 4294967296LL, -4294967296LL};
    for (unsigned k = 1; k < 64; k++) {
        if (!cx.kept(k)) { for (int j = 0; j < 12; j++) r.next(); continue; }
        Rng q(mix64(cx.seed, k));
        uint64_t tps = q.chance(1, 3) ? q.range(1, 1000000000) : q.pick(TPS);
        uint64_t lim = ((1ULL << 63) - 1) / tps;     // secs <= lim-1 keeps secs*tps+ticks below 2^63
        auto ts = [&](uint64_t& s, uint64_t& t) {
            static const uint64_t se[] = {0, 1, 0x7fffffffULL, 0x80000000ULL, 0xffffffffULL, 0x100000000ULL, 9223372036ULL};
            switch (q.below(4)) {
                case 0: s = q.pick(se); break;
                case 1: s = lim - 1 - q.below(lim < 3 ? lim : 3); break;
                default: s = q.next() >> q.range(1, 63); break;
            }
            if (s > lim - 1) s = lim - 1;
            switch (q.below(3)) { case 0: t = 0; break; case 1: t = tps - 1; break; default: t = q.below(tps); }
        };
        TsCase c;
        c.tps = tps;
        ts(c.secs, c.ticks);
        ts(c.rsecs, c.rticks);
        if (cx.describe) cx.description += "case " + std::to_string(k) + ": (" + std::to_string(c.secs) + "," + std::to_string(c.ticks) + ") vs (" + std::to_string(c.rsecs) + "," + std::to_string(c.rticks) + ") tps " + std::to_string(tps) + "; ";
        cx.log.ev("TS " + std::to_string(c.secs) + " " + std::to_string(c.ticks) + " " + std::to_string(c.rsecs) + " " + std::to_string(c.rticks) + " " + std::to_string(tps));
        check_ts_case(cx, c, "seeded");
        // offsets over all of int64; results beyond 2^63-1 ticks are outside the stated domain and not generated
        int64_t off = q.coin() ? q.pick(OFFS) : gen::int64_any(q);
        typedef __int128 I;
        I base = (I)c.secs * tps + c.ticks;
        if (base + off > (I)INT64_MAX) off = (int64_t)((I)INT64_MAX - base);
        uint64_t use_tps = q.chance(1, 12) ? 0 : tps;
        if (cx.describe) cx.description += "add " + std::to_string(off) + " at tps " + std::to_string(use_tps) + "; ";
        cx.log.ev("ADD " + std::to_string(off) + " " + std::to_string(use_tps));
        check_add(cx, c.secs, c.ticks, off, use_tps);
        if (q.chance(1, 10)) {
            CDNS::Timestamp t(c.secs, c.ticks), z(c.rsecs, c.rticks);
            bool threw = false;
            try { t.get_time_offset(z, 0); } catch (std::runtime_error&) { threw = true; }
            if (!threw) cx.violation("C17", "C17/I21/offset-at-rate-0-accepted", "get_time_offset with ticks_per_second 0 returned");
        }
    }
    cx.nontrivial = true;
    cx.state_key = "ts,";
}

// ---------------------------------------------------------------------------------------------------------------
// C11 (b)
struct TableModel {
    std::vector<std::string> items;
    std::map<std::string, CDNS::index_t> index;
    void clear() { items.clear(); index.clear(); }
};

std::string sig_str(const CDNS::QueryResponseSignature& q) {
    std::string s;
    auto o = [&](const char* n, bool has, uint64_t v) { if (has) s += std::string(n) + "=" + std::to_string(v) + ";"; };
    o("a", !!q.server_address_index, q.server_address_index ? *q.server_address_index : 0);
    o("b", !!q.server_port, q.server_port ? *q.server_port : 0);
    o("c", !!q.qr_transport_flags, q.qr_transport_flags ? (unsigned)*q.qr_transport_flags : 0);
    o("d", !!q.qr_type, q.qr_type ? (unsigned)*q.qr_type : 0);
    o("e", !!q.qr_sig_flags, q.qr_sig_flags ? (unsigned)*q.qr_sig_flags : 0);
    o("f", !!q.query_opcode, q.query_opcode ? *q.query_opcode : 0);
    o("g", !!q.qr_dns_flags, q.qr_dns_flags ? (unsigned)*q.qr_dns_flags : 0);
    o("h", !!q.query_rcode, q.query_rcode ? *q.query_rcode : 0);
    o("i", !!q.query_classtype_index, q.query_classtype_index ? *q.query_classtype_index : 0);
    o("j", !!q.query_qdcount, q.query_qdcount ? *q.query_qdcount : 0);
    o("k", !!q.query_ancount, q.query_ancount ? *q.query_ancount : 0);
    o("l", !!q.query_nscount, q.query_nscount ? *q.query_nscount : 0);
    o("m", !!q.query_arcount, q.query_arcount ? *q.query_arcount : 0);
    o("n", !!q.query_edns_version, q.query_edns_version ? *q.query_edns_version : 0);
    o("o", !!q.query_udp_size, q.query_udp_size ? *q.query_udp_size : 0);
    o("p", !!q.query_opt_rdata_index, q.query_opt_rdata_index ? *q.query_opt_rdata_index : 0);
    o("q", !!q.response_rcode, q.response_rcode ? *q.response_rcode : 0);
    return s;
}
CDNS::QueryResponseSignature make_sig(Rng& r, unsigned pool) {
    CDNS::QueryResponseSignature q;
    // values differing in exactly one optional member are frequent: members are toggled independently, values from a tiny pool
    auto on = [&] { return r.chance(1, 3); };
    auto v = [&] { return r.below(pool); };
    if (on()) q.server_address_index = (CDNS::index_t)v();
    if (on()) q.server_port = (uint16_t)v();
    if (on()) q.qr_transport_flags = (CDNS::QueryResponseTransportFlagsMask)v();
    if (on()) q.qr_type = (CDNS::QueryResponseTypeValues)v();
    if (on()) q.qr_sig_flags = (CDNS::QueryResponseFlagsMask)v();
    if (on()) q.query_opcode = (uint8_t)v();
    if (on()) q.qr_dns_flags = (CDNS::DNSFlagsMask)v();
    if (on()) q.query_rcode = (uint16_t)v();
    if (on()) q.query_classtype_index = (CDNS::index_t)v();
    if (on()) q.query_qdcount = (uint16_t)v();
    if (on()) q.query_ancount = (uint32_t)v();
    if (on()) q.query_nscount = (uint16_t)v();
    if (on()) q.query_arcount = (uint16_t)v();
    if (on()) q.query_edns_version = (uint8_t)v();
    if (on()) q.query_udp_size = (uint16_t)v();
    if (on()) q.query_opt_rdata_index = (CDNS::index_t)v();
    if (on()) q.response_rcode = (uint16_t)v();
    return q;
}
std::string mmd_str(const CDNS::MalformedMessageData& m) {
    std::string s;
    if (m.server_address_index) s += "a=" + std::to_string(*m.server_address_index) + ";";
    if (m.server_port) s += "p=" + std::to_string(*m.server_port) + ";";
    if (m.mm_transport_flags) s += "f=" + std::to_string((unsigned)*m.mm_transport_flags) + ";";
    if (m.mm_payload) s += "d=" + hex(*m.mm_payload) + ";";
    return s;
}
std::string list_str(const std::vector<CDNS::index_t>& l) { std::string s = "["; for (auto x : l) s += std::to_string(x) + ","; return s + "]"; }

struct Tables {
    RunCtx& cx;
    CDNS::CdnsBlock blk;
    TableModel m[9];
    std::unique_ptr<CDNS::CdnsBlock> snap;   // an earlier state of the block (copy) that is later assigned back over it
    TableModel snapm[9];
    static const char* name(int t) { return ref::TABLE_NAME[t]; }
    size_t real_size(int t) {
        switch (t) { case 0: return blk.m_ip_address.size(); case 1: return blk.m_classtype.size(); case 2: return blk.m_name_rdata.size(); case 3: return blk.m_qr_sig.size();
                     case 4: return blk.m_qlist.size(); case 5: return blk.m_qrr.size(); case 6: return blk.m_rrlist.size(); case 7: return blk.m_rr.size(); default: return blk.m_malformed_message_data.size(); }
    }
    void after_add(int t, const std::string& v, CDNS::index_t idx) {
        TableModel& T = m[t];
        auto it = T.index.find(v);
        if (it != T.index.end()) {
            if (idx != it->second) cx.violation("C11", std::string("C11/I07/equal-value-new-index/") + name(t), std::string(name(t)) + ": adding an equal value returned index " + std::to_string(idx) + ", first time " + std::to_string(it->second));
            cx.ctr->add("probe.table_repeat_add");
        } else {
            if (idx != T.items.size()) cx.violation("C11", std::string("C11/I07/new-value-wrong-index/") + name(t), std::string(name(t)) + ": new value got index " + std::to_string(idx) + ", table had " + std::to_string(T.items.size()) + " entries");
            T.index[v] = (CDNS::index_t)T.items.size();
            T.items.push_back(v);
        }
        if (real_size(t) != T.items.size()) cx.violation("C11", std::string("C11/I07/table-size/") + name(t), std::string(name(t)) + ": table has " + std::to_string(real_size(t)) + " entries, model " + std::to_string(T.items.size()));
    }
};

void run_tables(RunCtx& cx) {
    Rng r(mix_str(cx.seed, "tables"));
    Tables T{cx};
    unsigned pool = (unsigned)r.pick(std::vector<unsigned>{2, 3, 8, 100000});
    bool growth = r.chance(1, 12);
    unsigned n = growth ? 12000 : (unsigned)r.range(5, 300);
    cx.n_ops = n;
    if (growth) { cx.ctr->add("probe.table_growth_run"); pool = 1000000; }
    auto str = [&](Rng& q) { size_t len = q.below(pool < 10 ? 3 : 40); std::string s; for (size_t i = 0; i < len; i++) s.push_back((char)q.below(pool < 10 ? 2 : 256)); return s; };
    for (unsigned k = 0; k < n; k++) {
        Rng q(mix64(cx.seed, k));
        if (!cx.kept(k)) continue;
        int t = (int)q.below(9);
        unsigned action = (unsigned)q.below(growth ? 40 : 20);
        if (growth) t = (int)(k % 3 == 0 ? 2 : k % 3 == 1 ? 1 : 7);
        if (action == 0 && !growth) {
            if (cx.describe) cx.description += "clear; ";
            cx.log.ev("CLEAR");
            T.blk.clear();
            for (auto& m : T.m) m.clear();
            for (int j = 0; j < 9; j++) if (T.real_size(j) != 0) cx.violation("C11", "C11/I07/clear-left-entries", std::string(ref::TABLE_NAME[j]) + " not empty after clear()");
            cx.ctr->add("probe.block_cleared");
            continue;
        }
        if (action == 19 && !growth) {
            // keep a copy of the block as it is now ...
            cx.log.ev("SNAPSHOT");
            if (cx.describe) cx.description += "snapshot; ";
            T.snap.reset(new CDNS::CdnsBlock(T.blk));
            for (int j = 0; j < 9; j++) T.snapm[j] = T.m[j];
            continue;
        }
        if (action == 18 && !growth) {
            // ... and assign it (or a fresh block) over the block, which meanwhile may hold more, fewer or other entries: the tables are
            // those of the assigned block and nothing of the previous content is visible
            cx.log.ev(T.snap ? "ASSIGN-SNAPSHOT" : "ASSIGN-FRESH");
            if (cx.describe) cx.description += T.snap ? "assign the snapshot over the block; " : "assign a fresh block over the block; ";
            if (T.snap) { T.blk = *T.snap; for (int j = 0; j < 9; j++) T.m[j] = T.snapm[j]; }
            else { CDNS::BlockParameters bp; CDNS::CdnsBlock fresh(bp, 0); T.blk = fresh; for (auto& m : T.m) m.clear(); }
            for (int j = 0; j < 9; j++)
                if (T.real_size(j) != T.m[j].items.size()) cx.violation("C11", std::string("C11/I07/table-size-after-assignment/") + ref::TABLE_NAME[j], std::string(ref::TABLE_NAME[j]) + " has " + std::to_string(T.real_size(j)) + " entries after the assignment, the assigned block had " + std::to_string(T.m[j].items.size()));
            cx.ctr->add("probe.block_assigned_over");
            continue;
        }
        if (action <= 4 && !T.m[t].items.empty()) {
            // get / find of an existing entry: index stability
            CDNS::index_t idx = (CDNS::index_t)q.below(T.m[t].items.size());
            std::string got;
            try {
                switch (t) {
                    case 0: got = hex(T.blk.get_ip_address(idx)); break;
                    case 1: { auto c = T.blk.get_classtype(idx); got = model::ct_str(c); break; }
                    case 2: got = hex(T.blk.get_name_rdata(idx)); break;
                    case 3: got = sig_str(T.blk.get_qr_signature(idx)); break;
                    case 4: got = list_str(T.blk.get_question_list(idx)); break;
                    case 5: { auto x = T.blk.get_question(idx); got = std::to_string(x.name_index) + "/" + std::to_string(x.classtype_index); break; }
                    case 6: got = list_str(T.blk.get_rr_list(idx)); break;
                    case 7: { auto x = T.blk.get_rr(idx); got = std::to_string(x.name_index) + "/" + std::to_string(x.classtype_index) + "/" + (x.ttl ? std::to_string(*x.ttl) : "-") + "/" + (x.rdata_index ? std::to_string(*x.rdata_index) : "-"); break; }
                    default: got = mmd_str(T.blk.get_malformed_message_data(idx)); break;
                }
            } catch (std::exception& e) { got = std::string("<threw ") + e.what() + ">"; }
            cx.log.ev("GET " + std::to_string(t) + " " + std::to_string(idx));
            if (cx.describe) cx.description += std::string("get ") + ref::TABLE_NAME[t] + "[" + std::to_string(idx) + "]; ";
            if (got != T.m[t].items[idx]) cx.violation("C11", std::string("C11/I07/index-not-stable/") + ref::TABLE_NAME[t], std::string(ref::TABLE_NAME[t]) + "[" + std::to_string(idx) + "] no longer denotes the value added at that index");
            // an out-of-range get must be refused
            bool threw = false;
            try { switch (t) { case 0: T.blk.get_ip_address((CDNS::index_t)T.m[t].items.size()); break; case 1: T.blk.get_classtype((CDNS::index_t)T.m[t].items.size()); break; default: T.blk.get_name_rdata((CDNS::index_t)T.m[2].items.size()); break; } }
            catch (std::exception&) { threw = true; }
            if (!threw) cx.violation("C11", "C11/I07/out-of-range-get-accepted", ref::TABLE_NAME[t]);
            continue;
        }
        std::string v;
        CDNS::index_t idx = 0;
        switch (t) {
            case 0: { std::string s = str(q); v = hex(s); idx = T.blk.add_ip_address(s); break; }
            case 1: { CDNS::ClassType c; c.type = (uint16_t)q.below(pool); c.class_ = (uint16_t)q.below(pool); v = model::ct_str(c); idx = T.blk.add_classtype(c); break; }
            case 2: { std::string s = str(q); v = hex(s); idx = T.blk.add_name_rdata(s); break; }
            case 3: { auto s = make_sig(q, pool < 10 ? pool : 60000); v = sig_str(s); idx = T.blk.add_qr_signature(s); break; }
            case 4: { std::vector<CDNS::index_t> l; size_t len = q.below(4); for (size_t i = 0; i < len; i++) l.push_back((CDNS::index_t)q.below(pool)); v = list_str(l); idx = T.blk.add_question_list(l); break; }
            case 5: { CDNS::Question x; x.name_index = (CDNS::index_t)q.below(pool); x.classtype_index = (CDNS::index_t)q.below(pool); v = std::to_string(x.name_index) + "/" + std::to_string(x.classtype_index); idx = T.blk.add_question(x); break; }
            case 6: { std::vector<CDNS::index_t> l; size_t len = q.below(4); for (size_t i = 0; i < len; i++) l.push_back((CDNS::index_t)q.below(pool)); v = list_str(l); idx = T.blk.add_rr_list(l); break; }
            case 7: {
                CDNS::RR x; x.name_index = (CDNS::index_t)q.below(pool); x.classtype_index = (CDNS::index_t)q.below(pool);
                if (q.coin()) x.ttl = (uint32_t)q.below(pool);
                if (q.coin()) x.rdata_index = (CDNS::index_t)q.below(pool);
                v = std::to_string(x.name_index) + "/" + std::to_string(x.classtype_index) + "/" + (x.ttl ? std::to_string(*x.ttl) : "-") + "/" + (x.rdata_index ? std::to_string(*x.rdata_index) : "-");
                idx = T.blk.add_rr(x);
                break;
            }
            default: {
                CDNS::MalformedMessageData x;
                if (q.coin()) x.server_address_index = (CDNS::index_t)q.below(pool);
                if (q.coin()) x.server_port = (uint16_t)q.below(pool);
                if (q.coin()) x.mm_transport_flags = (CDNS::QueryResponseTransportFlagsMask)q.below(pool < 256 ? pool : 256);
                if (q.coin()) x.mm_payload = str(q);
                v = mmd_str(x);
                idx = T.blk.add_malformed_message_data(x);
                break;
            }
        }
        cx.log.ev("ADD " + std::to_string(t) + " " + std::to_string(idx));
        if (cx.describe && cx.description.size() < 3000) cx.description += std::string("add ") + ref::TABLE_NAME[t] + " " + v.substr(0, 30) + " -> " + std::to_string(idx) + "; ";
        T.after_add(t, v, idx);
    }
    // late repeats in a table with more than 2^16 entries (index types narrower than index_t wrap there)
    if (growth && cx.kept(0)) {
        T.blk.clear();
        for (auto& m : T.m) m.clear();
        const unsigned N = 65536 + 700;
        for (unsigned k = 0; k < N; k++) {
            std::string nm = "n" + std::to_string(k);
            CDNS::index_t idx = T.blk.add_name_rdata(nm);
            if (idx != k) { cx.violation("C11", "C11/I07/new-value-wrong-index/name-rdata", "entry " + std::to_string(k) + " of a growing table got index " + std::to_string(idx)); break; }
            T.blk.add_ip_address(nm);
        }
        Rng q(mix_str(cx.seed, "late"));
        for (unsigned j = 0; j < 300; j++) {
            unsigned k = j < 150 ? 65536 + (unsigned)q.below(700) : (unsigned)q.below(N);
            std::string nm = "n" + std::to_string(k);
            CDNS::index_t a = T.blk.add_name_rdata(nm), b = T.blk.add_ip_address(nm);
            if (a != k || b != k) {
                cx.violation("C11", "C11/I07/equal-value-new-index/large-table", "re-adding entry " + std::to_string(k) + " of a table with " + std::to_string(N) + " entries returned index " + std::to_string(a) + "/" + std::to_string(b));
                break;
            }
            if (T.blk.get_name_rdata(a) != nm) { cx.violation("C11", "C11/I07/index-not-stable/large-table", "index " + std::to_string(a) + " does not denote the value it was returned for"); break; }
        }
        if (T.blk.m_name_rdata.size() != N) cx.violation("C11", "C11/I07/table-size/large-table", "table grew to " + std::to_string(T.blk.m_name_rdata.size()) + " on repeated adds");
        cx.ctr->add("probe.table_with_more_than_65536_entries");
        cx.log.ev("LARGE-TABLE " + std::to_string(N));
    }
    size_t total = 0;
    for (auto& m : T.m) total += m.items.size();
    cx.ctr->add("table_entries_total", total);
    cx.ctr->max("max.table_entries_in_one_block", total);
    cx.nontrivial = total > 0;
    cx.state_key = "tables" + std::to_string(pool) + ",";
}

// ---------------------------------------------------------------------------------------------------------------
// C19
// canonical content of a block, taken by serialising it through a real exporter into SimFS and reading the file
// with the independent reader (order-insensitive for address events, which live in a hash map)
std::string block_content(CDNS::CdnsBlock& b, std::vector<CDNS::BlockParameters>& sets, const char* tag, RunCtx& cx) {
    simfs::FS& F = simfs::fs();
    std::string name = std::string("/sim/c19-") + tag;
    if (b.get_item_count() == 0) return "<empty block>";
    {
        CDNS::FilePreamble fp(sets);
        CDNS::CdnsExporter ex(fp, name, CDNS::CborOutputCompression::NO_COMPRESSION);
        ex.write_block(b);
    }
    if (!F.exists(name)) return "<no file>";
    std::string bytes = F.get(name);
    F.dir.erase(name);
    try {
        ref::RFile rf = ref::Interp::file(bytes);
        if (rf.blocks.size() != 1) return "<" + std::to_string(rf.blocks.size()) + " blocks>";
        const ref::RBlock& rb = rf.blocks[0];
        std::string s = "bp=" + std::to_string(rb.bp_index) + " e=" + std::to_string(rb.e_secs) + "." + std::to_string(rb.e_ticks) + "|";
        for (auto& q : rb.qr) s += "Q{" + ref::dump(q) + "}";
        std::map<std::string, uint64_t> a;
        for (auto& x : rb.aec) a[ref::dump(x.first)] += x.second;
        for (auto& kv : a) s += "A{" + kv.first + "#" + std::to_string(kv.second) + "}";
        for (auto& q : rb.mm) s += "M{" + ref::dump(q) + "}";
        if (rb.has_stats) s += "S{" + ref::dump(rb.stats) + "}";
        for (int t = 0; t < 9; t++) s += "T" + std::to_string(rb.table_size[t]);
        for (auto& d : rb.duplicates) s += " DUP:" + d;
        return s;
    } catch (std::exception& e) {
        return std::string("<invalid: ") + e.what() + ">";
    }
    (void)cx;
}

void run_copies(RunCtx& cx) {
    Rng r(mix_str(cx.seed, "copies"));
    gen::Swarm sw = gen::swarm(cx.seed, gen::P_TABLES);
    for (auto& bp : sw.sets) { bp.storage_parameters.storage_hints = CDNS::StorageHints(); bp.storage_parameters.max_block_items = 10000; }
    std::vector<CDNS::BlockParameters> sets = sw.sets;
    simfs::FS& F = simfs::fs();
    F.reset();
    F.log = &cx.log;
    uint64_t tps = sets[0].storage_parameters.ticks_per_second;
    // ---- the source block --------------------------------------------------------------------------------
    bool from_reader = r.coin();
    unsigned nrec = (unsigned)r.range(1, 12);
    // a block may hold table entries and statistics but no record yet (a template block; a snapshot taken between add_ip_address()
    // and the record that will refer to it)
    const bool tables_only = r.chance(1, 6);
    if (tables_only) { from_reader = false; nrec = 0; }
    // a block read from a producer that does not de-duplicate its tables holds equal entries (legal); a copy holds them too
    const bool dup_source = r.chance(1, 4);
    std::vector<uint64_t> rec_seeds;
    for (unsigned i = 0; i < nrec; i++) rec_seeds.push_back(r.next());
    auto fill = [&](CDNS::CdnsBlock& b) {
        for (unsigned i = 0; i < nrec; i++) {
            gen::RecGen g(sw, rec_seeds[i]);
            switch (rec_seeds[i] % 3) {
                case 0: b.add_question_response_record(g.qr(tps)); break;
                case 1: b.add_address_event_count(g.aec()); break;
                default: b.add_malformed_message(g.mm(tps)); break;
            }
        }
    };
    static const char* HOW[] = {"copy-ctor", "move-ctor", "copy-assign", "move-assign", "blockread-copy-ctor", "blockread-move-ctor", "blockread-copy-assign", "reader-return-assign"};
    unsigned how = (unsigned)r.below(8);
    if (tables_only && how >= 4) how = (unsigned)r.below(4);
    if (how >= 4) from_reader = true;
    static const char* FATE[] = {"kept", "modified", "cleared", "destroyed"};
    unsigned fate = (unsigned)r.below(4);
    cx.n_ops = 12;
    cx.tag(HOW[how]);
    cx.tag(std::string("source-") + FATE[fate]);
    if (cx.describe) cx.description = std::string("source ") + (from_reader ? "read from a file" : "built") + " with " + std::to_string(nrec) + " records; second block by " + HOW[how] + "; source then " + FATE[fate] + "; ops on the copy:";
    cx.log.ev(std::string("PLAN ") + HOW[how] + " " + FATE[fate]);

    bool source_has_dups = false;
    std::unique_ptr<CDNS::CdnsBlock> src;
    std::unique_ptr<CDNS::CdnsBlockRead> rsrc;
    std::unique_ptr<CDNS::CdnsBlock> cpy;
    std::unique_ptr<CDNS::CdnsBlockRead> rcpy;
    std::string file_bytes;
    if (from_reader) {
        CDNS::CdnsBlock tmp(sets[0], 0);
        fill(tmp);
        if (tmp.get_item_count() == 0) return;
        {
            CDNS::FilePreamble fp(sets);
            CDNS::CdnsExporter ex(fp, std::string("/sim/c19-src"), CDNS::CborOutputCompression::NO_COMPRESSION);
            ex.write_block(tmp);
        }
        file_bytes = F.get("/sim/c19-src");
        F.dir.erase("/sim/c19-src");
        if (dup_source) {
            try {
                ref::Node root = ref::Decoder(file_bytes).parse_all();
                Rng q(mix_str(cx.seed, "dup-source"));
                if (ref::duplicate_table_entries(root, q)) { file_bytes = ref::encode_preferred(root); source_has_dups = true; cx.tag("source-with-duplicate-table-entries"); cx.ctr->add("probe.copy_of_block_with_duplicate_table_entries"); }
            } catch (std::exception&) {}
        }
    }
    std::istringstream is(file_bytes);
    std::unique_ptr<CDNS::CdnsReader> reader;
    if (from_reader) {
        reader.reset(new CDNS::CdnsReader(is));
        bool eof = false;
        if (how == 7) {
            // "assign the reader's return value"
            rcpy.reset(new CDNS::CdnsBlockRead());
            if (mix_str(cx.seed, "prefill7") & 1) {
                cx.tag("assign-onto-non-empty-block");
                Rng q(mix_str(cx.seed, "prefill"));
                for (unsigned i = 0; i < 12; i++) { gen::RecGen g(sw, q.next()); rcpy->add_question_response_record(g.qr(tps)); rcpy->add_ip_address("prefill-" + std::to_string(i)); rcpy->add_name_rdata("prefill-name-" + std::to_string(i)); }
            }
            *rcpy = reader->read_block(eof);
        } else {
            rsrc.reset(new CDNS::CdnsBlockRead(reader->read_block(eof)));
        }
    } else {
        src.reset(new CDNS::CdnsBlock(sets[0], 0));
        fill(*src);
        if (tables_only) {
            Rng q(mix_str(cx.seed, "tables-only"));
            unsigned n = (unsigned)q.range(1, 6);
            for (unsigned i = 0; i < n; i++) {
                src->add_ip_address("tab-ip-" + std::to_string(q.below(4)));
                src->add_name_rdata("tab-name-" + std::to_string(q.below(4)));
                CDNS::ClassType ct; ct.type = (uint16_t)q.below(3); ct.class_ = 1; src->add_classtype(ct);
            }
            if (q.coin()) { gen::RecGen g(sw, q.next()); src->m_block_statistics = g.stats(0); }
            cx.tag("source-without-records");
            cx.ctr->add("probe.copy_of_block_without_records");
        }
    }
    CDNS::CdnsBlock* S = rsrc ? rsrc.get() : src.get();
    // what the tables of the source hold, entry by entry (compared with the copy's below)
    auto table_image = [](CDNS::CdnsBlock& b) {
        std::string s;
        for (CDNS::index_t i = 0; i < b.m_ip_address.size(); i++) s += "i" + hex(b.get_ip_address(i)) + ",";
        for (CDNS::index_t i = 0; i < b.m_name_rdata.size(); i++) s += "n" + hex(b.get_name_rdata(i)) + ",";
        for (CDNS::index_t i = 0; i < b.m_classtype.size(); i++) s += "c" + model::ct_str(b.get_classtype(i)) + ",";
        s += "|" + std::to_string(b.m_qr_sig.size()) + "/" + std::to_string(b.m_qlist.size()) + "/" + std::to_string(b.m_qrr.size()) + "/" + std::to_string(b.m_rrlist.size()) + "/" + std::to_string(b.m_rr.size()) + "/" +
             std::to_string(b.m_malformed_message_data.size()) + (b.m_block_statistics ? "|stats" : "|-");
        return s;
    };
    std::string want_tables = S ? table_image(*S) : std::string();
    std::string want;
    bool want_full = false;   // (max_block_items is 10000 here)
    if (S) { want = block_content(*S, sets, "want", cx); want_full = S->full(); }
    else {
        // how == 7: ground truth from a second, untouched reading of the same file
        std::istringstream is2(file_bytes);
        CDNS::CdnsReader rd2(is2);
        bool eof = false;
        CDNS::CdnsBlockRead fresh = rd2.read_block(eof);
        want = block_content(fresh, sets, "want", cx);
    }
    // the target of an assignment often is a block that already holds other (more) data — e.g. a block variable reused in a read loop
    bool do_prefill = r.coin();
    auto prefill = [&](CDNS::CdnsBlock& b) {
        if (!do_prefill) return;
        cx.tag("assign-onto-non-empty-block");
        cx.ctr->add("probe.assignment_onto_non_empty_block");
        Rng q(mix_str(cx.seed, "prefill"));
        unsigned n = (unsigned)q.range(3, 25);
        for (unsigned i = 0; i < n; i++) {
            gen::RecGen g(sw, q.next());
            b.add_question_response_record(g.qr(tps));
            b.add_ip_address("prefill-" + std::to_string(i));
            b.add_name_rdata("prefill-name-" + std::to_string(i));
            if (i % 3 == 0) b.add_address_event_count(g.aec());
            if (i % 4 == 0) b.add_malformed_message(g.mm(tps));
        }
    };
    // The target of an assignment may have been built / read under OTHER block parameters that carry the same index (index 0 of
    // another file's preamble — a block variable reused across inputs): other tick rate, block size and hints.
    bool other_params = r.coin();
    CDNS::BlockParameters other = sets[0];
    {
        uint64_t t = other.storage_parameters.ticks_per_second;
        other.storage_parameters.ticks_per_second = t == 1000 ? 1000000 : 1000;
        other.storage_parameters.max_block_items = 1 + r.below(3);
        other.storage_parameters.storage_hints.query_response_hints = 0x5;
        other.storage_parameters.storage_hints.rr_hints = 0;
    }
    CDNS::BlockParameters& target_params = other_params ? other : sets[0];
    if (other_params && (how == 2 || how == 3 || how == 6)) { cx.tag("target-built-under-other-parameters"); cx.ctr->add("probe.assignment_onto_block_with_other_parameters"); }
    // a CdnsBlockRead that was read from another file (preamble = {other}) and is now reused
    auto read_target = [&]() -> CDNS::CdnsBlockRead* {
        if (!other_params) return new CDNS::CdnsBlockRead();
        std::vector<CDNS::BlockParameters> osets{other};
        CDNS::CdnsBlock tmp(other, 0);
        gen::RecGen g(sw, mix_str(cx.seed, "other-file"));
        tmp.add_question_response_record(g.qr(other.storage_parameters.ticks_per_second));
        if (tmp.get_item_count() == 0) return new CDNS::CdnsBlockRead();
        {
            CDNS::FilePreamble fp(osets);
            CDNS::CdnsExporter ex(fp, std::string("/sim/c19-other"), CDNS::CborOutputCompression::NO_COMPRESSION);
            ex.write_block(tmp);
        }
        std::string ob = F.get("/sim/c19-other");
        F.dir.erase("/sim/c19-other");
        std::istringstream ois(ob);
        CDNS::CdnsReader ord(ois);
        bool oeof = false;
        return new CDNS::CdnsBlockRead(ord.read_block(oeof));
    };
    // a CdnsBlockRead source may already have been read from (its read position is not part of its value)
    if (rsrc && r.coin()) {
        bool end = false;
        unsigned k = (unsigned)r.range(1, 4);
        for (unsigned i = 0; i < k && !end; i++) rsrc->read_generic_qr(end);
        end = false;
        for (unsigned i = 0; i < k && !end; i++) rsrc->read_generic_mm(end);
        end = false;
        if (r.coin()) rsrc->read_generic_aec(end);
        cx.tag("source-partly-read");
        cx.ctr->add("probe.copy_of_partly_read_block");
    }
    // ---- make the second block ------------------------------------------------------------------------------
    switch (how) {
        case 0: cpy.reset(new CDNS::CdnsBlock(*S)); break;
        case 1: { std::string before = want; cpy.reset(new CDNS::CdnsBlock(std::move(*S))); break; }
        case 2: cpy.reset(new CDNS::CdnsBlock(target_params, 0)); prefill(*cpy); *cpy = *S; break;
        case 3: cpy.reset(new CDNS::CdnsBlock(target_params, 0)); prefill(*cpy); *cpy = std::move(*S); break;
        case 4: rcpy.reset(new CDNS::CdnsBlockRead(*rsrc)); break;
        case 5: rcpy.reset(new CDNS::CdnsBlockRead(std::move(*rsrc))); break;
        case 6: rcpy.reset(read_target()); prefill(*rcpy); *rcpy = *rsrc; break;
        default: break;
    }
    CDNS::CdnsBlock* C = rcpy ? static_cast<CDNS::CdnsBlock*>(rcpy.get()) : cpy.get();
    // ---- fate of the source ---------------------------------------------------------------------------------
    std::string src_after_want = want;
    if (S) {
        switch (fate) {
            case 1: {
                gen::RecGen g(sw, r.next());
                S->add_question_response_record(g.qr(tps));
                S->add_ip_address("changed-after-copy");
                src_after_want = block_content(*S, sets, "srcmod", cx);
                break;
            }
            case 2: S->clear(); break;
            case 3: src.reset(); rsrc.reset(); S = nullptr; break;
            default: break;
        }
    }
    if (fate == 3 && reader && r.coin()) { reader.reset(); cx.tag("reader-destroyed"); }
    // ---- operations on the copy (ops of the plan) --------------------------------------------------------------
    std::string got = block_content(*C, sets, "got", cx);
    if (got != want) cx.violation("C19", std::string("C19/I28/copy-content-differs/") + HOW[how], std::string("block obtained by ") + HOW[how] + " serialises differently from its source (source then " + FATE[fate] + ")");
    if (S == nullptr && want_tables.empty()) {}   // (how == 7: no source object to compare with)
    else if (!want_tables.empty()) {
        std::string got_tables = table_image(*C);
        if (got_tables != want_tables)
            cx.violation("C19", std::string("C19/I28/copy-tables-differ/") + HOW[how], std::string("the block tables / statistics of the block obtained by ") + HOW[how] + " differ from its source's" +
                                                                                        (tables_only ? " (source without records)" : "") + ": " + got_tables.substr(0, 160) + " vs " + want_tables.substr(0, 160));
    }
    // a CdnsBlockRead obtained from another one delivers every record from the start, like a block freshly read from the file
    if (rcpy && !file_bytes.empty()) {
        std::istringstream is3(file_bytes);
        CDNS::CdnsReader rd3(is3);
        bool eof3 = false;
        CDNS::CdnsBlockRead fresh = rd3.read_block(eof3);
        model::VBlock vw = model::view_block(fresh), vg = model::view_block(*rcpy);
        if (vw.qr != vg.qr || vw.mm != vg.mm || vw.aec != vg.aec)
            cx.violation("C19", std::string("C19/I28/copy-delivers-other-records/") + HOW[how], std::string("read_generic_* on the block obtained by ") + HOW[how] + " delivered " + std::to_string(vg.qr.size()) + "/" + std::to_string(vg.aec.size()) + "/" +
                                                                                              std::to_string(vg.mm.size()) + " records, a freshly read block " + std::to_string(vw.qr.size()) + "/" + std::to_string(vw.aec.size()) + "/" + std::to_string(vw.mm.size()));
    }
    if (C->full() != want_full)
        cx.violation("C19", std::string("C19/I28/copy-behaves-differently/full/") + HOW[how], std::string("full() of the block obtained by ") + HOW[how] + " is " + (C->full() ? "true" : "false") + ", of its source " + (want_full ? "true" : "false"));
    // a freshly built twin for comparing behaviour
    CDNS::CdnsBlock twin(sets[0], 0);
    bool have_twin = !from_reader;
    if (have_twin) fill(twin);
    for (unsigned k = 0; k < 12; k++) {
        Rng q(mix64(cx.seed, 100 + k));
        if (!cx.kept(k)) continue;
        unsigned act = (unsigned)q.below(6);
        std::string what;
        try {
            switch (act) {
                case 0: {   // de-duplicating addition of a value the block already holds
                    if (C->m_ip_address.size() == 0) break;
                    CDNS::index_t i = (CDNS::index_t)q.below(C->m_ip_address.size());
                    std::string v = C->get_ip_address(i);
                    size_t before = C->m_ip_address.size();
                    CDNS::index_t j = C->add_ip_address(v);
                    what = "add existing ip";
                    // the first entry equal to v must be returned and the table must not grow
                    CDNS::index_t first = i;
                    for (CDNS::index_t z = 0; z < before; z++) if (C->get_ip_address(z) == v) { first = z; break; }
                    if (C->m_ip_address.size() != before || j != first)
                        cx.violation("C19", std::string("C19/I28/dedup-broken-on-copy/") + HOW[how], "adding an ip address the copy already holds returned index " + std::to_string(j) + " (entry " + std::to_string(first) + " holds it), table " + std::to_string(before) + " -> " + std::to_string(C->m_ip_address.size()));
                    cx.ctr->add("probe.add_existing_on_copy");
                    break;
                }
                case 1: {   // same for name/rdata
                    if (C->m_name_rdata.size() == 0) break;
                    CDNS::index_t i = (CDNS::index_t)q.below(C->m_name_rdata.size());
                    std::string v = C->get_name_rdata(i);
                    size_t before = C->m_name_rdata.size();
                    CDNS::index_t j = C->add_name_rdata(v);
                    what = "add existing name";
                    CDNS::index_t first = i;
                    for (CDNS::index_t z = 0; z < before; z++) if (C->get_name_rdata(z) == v) { first = z; break; }
                    if (C->m_name_rdata.size() != before || j != first)
                        cx.violation("C19", std::string("C19/I28/dedup-broken-on-copy/") + HOW[how], "adding a name the copy already holds returned index " + std::to_string(j) + ", table " + std::to_string(before) + " -> " + std::to_string(C->m_name_rdata.size()));
                    cx.ctr->add("probe.add_existing_on_copy");
                    break;
                }
                case 2: {   // a new value
                    size_t before = C->m_ip_address.size();
                    std::string v = "new-" + std::to_string(q.next());
                    CDNS::index_t j = C->add_ip_address(v);
                    what = "add new ip";
                    if (j != before || C->m_ip_address.size() != before + 1 || C->get_ip_address(j) != v)
                        cx.violation("C19", std::string("C19/I28/new-value-on-copy/") + HOW[how], "adding a new ip address to the copy returned " + std::to_string(j) + ", table had " + std::to_string(before));
                    break;
                }
                case 3: {   // classtype lookups
                    if (C->m_classtype.size() == 0) break;
                    CDNS::index_t i = (CDNS::index_t)q.below(C->m_classtype.size());
                    CDNS::ClassType v = C->get_classtype(i);
                    size_t before = C->m_classtype.size();
                    CDNS::index_t j = C->add_classtype(v);
                    what = "add existing classtype";
                    CDNS::index_t first = i;
                    for (CDNS::index_t z = 0; z < before; z++) if (C->get_classtype(z) == v) { first = z; break; }
                    if (C->m_classtype.size() != before || j != first)
                        cx.violation("C19", std::string("C19/I28/dedup-broken-on-copy/") + HOW[how], "adding a classtype the copy already holds returned index " + std::to_string(j) + ", table " + std::to_string(before) + " -> " + std::to_string(C->m_classtype.size()));
                    cx.ctr->add("probe.add_existing_on_copy");
                    break;
                }
                case 4: {   // a whole record through the generic API (all tables: find + add)
                    gen::RecGen g(sw, rec_seeds.empty() ? q.next() : rec_seeds[q.below(rec_seeds.size())]);
                    C->add_question_response_record(g.qr(tps));
                    if (have_twin && !rec_seeds.empty()) twin.add_question_response_record(gen::RecGen(sw, rec_seeds[0]).qr(tps)), have_twin = false;
                    what = "add record";
                    break;
                }
                default: {  // reads
                    if (rcpy) {
                        model::VBlock v = model::view_block(*rcpy);
                        (void)v;
                        cx.ctr->add("probe.read_generic_on_copy");
                    } else {
                        std::string s = C->string();
                        (void)s;
                    }
                    what = "read";
                    break;
                }
            }
        } catch (std::exception& e) {
            cx.violation("C19", std::string("C19/I28/operation-on-copy-threw/") + HOW[how], what + ": " + e.what());
        }
        cx.log.ev("COPY-OP " + what);
        if (cx.describe) cx.description += " " + what + ";";
    }
    // the source must be unaffected by changes to the copy
    if (S && fate != 2) {
        std::string now = block_content(*S, sets, "srcafter", cx);
        if (now != src_after_want && !(how == 1 || how == 3 || how == 5))
            cx.violation("C19", std::string("C19/I28/source-affected-by-copy/") + HOW[how], "the source block changed after operations on the copy");
    }
    // the copy still serialises to a valid block
    std::string fin = block_content(*C, sets, "final", cx);
    if (fin.compare(0, 9, "<invalid:") == 0) cx.violation("C19", std::string("C19/I28/copy-serialises-invalid/") + HOW[how], fin);
    if (!source_has_dups && fin.find(" DUP:") != std::string::npos) cx.violation("C19", std::string("C19/I28/copy-has-duplicate-entries/") + HOW[how], fin.substr(fin.find(" DUP:"), 200));
    cpy.reset();
    rcpy.reset();
    src.reset();
    rsrc.reset();
    reader.reset();
    cx.nontrivial = true;
    cx.state_key = std::string(HOW[how]) + "/" + FATE[fate] + ",";
    F.reset();
    F.log = nullptr;
}

// ---------------------------------------------------------------------------------------------------------------
// C04 on copied blocks: the parameters in force for a copy are those of its source. A block built under restricted hints
// is copied / moved / assigned (also onto a block built under other hints, also by std::vector growth), the copy is
// filled further and written with write_block(block); nothing the hints exclude may be in the file.
void run_copied_hints(RunCtx& cx) {
    Rng r(mix_str(cx.seed, "copied-hints"));
    gen::Swarm sw = gen::swarm(cx.seed, gen::P_HINTS);
    for (auto& bp : sw.sets) bp.storage_parameters.max_block_items = 10000;
    std::vector<CDNS::BlockParameters> sets = sw.sets;
    sets.resize(1);
    simfs::FS& F = simfs::fs();
    F.reset();
    F.log = &cx.log;
    uint64_t tps = sets[0].storage_parameters.ticks_per_second;
    static const char* HOW[] = {"copy-ctor", "move-ctor", "copy-assign", "move-assign", "vector-growth"};
    unsigned how = (unsigned)r.below(5);
    unsigned n_before = (unsigned)r.range(0, 6), n_after = (unsigned)r.range(1, 8);
    cx.n_ops = n_before + n_after;
    cx.tag(HOW[how]);
    if (n_before == 0) cx.tag("empty-source");
    auto add = [&](CDNS::CdnsBlock& b, uint64_t seed) {
        gen::RecGen g(sw, seed);
        switch (seed % 4) {
            case 0: case 1: b.add_question_response_record(g.qr(tps)); break;
            case 2: b.add_address_event_count(g.aec()); break;
            default: b.add_malformed_message(g.mm(tps)); break;
        }
    };
    CDNS::BlockParameters allon = sets[0];
    allon.storage_parameters.storage_hints = CDNS::StorageHints();
    std::vector<uint64_t> seeds;
    for (unsigned i = 0; i < n_before + n_after; i++) seeds.push_back(r.next());
    std::unique_ptr<CDNS::CdnsBlock> src(new CDNS::CdnsBlock(sets[0], 0));
    for (unsigned i = 0; i < n_before; i++) if (cx.kept(i)) add(*src, seeds[i]);
    std::unique_ptr<CDNS::CdnsBlock> cpy;
    std::vector<CDNS::CdnsBlock> vec;
    CDNS::CdnsBlock* C = nullptr;
    switch (how) {
        case 0: cpy.reset(new CDNS::CdnsBlock(*src)); break;
        case 1: cpy.reset(new CDNS::CdnsBlock(std::move(*src))); break;
        case 2: cpy.reset(new CDNS::CdnsBlock(allon, 0)); { gen::RecGen g(sw, r.next()); cpy->add_question_response_record(g.qr(tps)); } *cpy = *src; break;
        case 3: cpy.reset(new CDNS::CdnsBlock(allon, 0)); *cpy = std::move(*src); break;
        default:
            vec.reserve(1);
            vec.emplace_back(*src);
            for (int k = 0; k < 3; k++) vec.emplace_back(allon, 0);   // reallocation relocates element 0
            break;
    }
    C = how == 4 ? &vec[0] : cpy.get();
    if (r.coin()) src.reset();
    for (unsigned i = 0; i < n_after; i++) if (cx.kept(n_before + i)) add(*C, seeds[n_before + i]);
    cx.log.ev(std::string("COPIED-HINTS ") + HOW[how] + " items " + std::to_string(C->get_item_count()));
    if (cx.describe) cx.description = std::string("block with ") + std::to_string(n_before) + " records built under hints " + std::to_string(sets[0].storage_parameters.storage_hints.query_response_hints) + "/" +
                                      std::to_string(sets[0].storage_parameters.storage_hints.query_response_signature_hints) + "/" + std::to_string((unsigned)sets[0].storage_parameters.storage_hints.rr_hints) + "/" +
                                      std::to_string((unsigned)sets[0].storage_parameters.storage_hints.other_data_hints) + ", second block by " + HOW[how] + ", " + std::to_string(n_after) + " more records added to it, written with write_block(block)";
    if (C->get_item_count() > 0) {
        {
            CDNS::FilePreamble fp(sets);
            CDNS::CdnsExporter ex(fp, std::string("/sim/c04-copy"), CDNS::CborOutputCompression::NO_COMPRESSION);
            ex.write_block(*C);
        }
        std::string bytes = F.exists("/sim/c04-copy") ? F.get("/sim/c04-copy") : std::string();
        try {
            ref::RFile rf = ref::Interp::file(bytes);
            model::Hints h = model::Hints::of(sets[0]);
            for (auto& b : rf.blocks) {
                for (auto& mem : b.members) {
                    bool ok = true;
                    if (mem.compare(0, 3, "qr.") == 0 && mem != "qr.rq") ok = (h.qr >> std::stoi(mem.substr(3))) & 1;
                    else if (mem.compare(0, 4, "sig.") == 0) ok = ((h.sig >> std::stoi(mem.substr(4))) & 1) && ((h.qr >> 4) & 1);
                    else if (mem.compare(0, 3, "rr.") == 0) ok = (h.rr >> std::stoi(mem.substr(3))) & 1;
                    if (!ok) cx.violation("C04", std::string("C04/I04/member-despite-cleared-hint/copied-block/") + HOW[how], "member " + mem + " present in a block obtained by " + HOW[how] + " from one built under hints " +
                                                                                                                                std::to_string(h.qr) + "/" + std::to_string(h.sig) + "/" + std::to_string(h.rr));
                }
                if (b.has_aec_array && !(h.other & 2)) cx.violation("C04", std::string("C04/I04/aec-despite-cleared-hint/copied-block/") + HOW[how], "address events stored in a copied block whose hints exclude them");
                if (b.has_mm_array && !(h.other & 1)) cx.violation("C04", std::string("C04/I04/mm-despite-cleared-hint/copied-block/") + HOW[how], "malformed messages stored in a copied block whose hints exclude them");
                for (auto& d : b.unreachable) cx.violation("C04", std::string("C04/I05/unreachable-table-entry/copied-block/") + HOW[how], d);
            }
            cx.ctr->add("copied_blocks_checked");
            cx.nontrivial = true;
        } catch (std::exception& e) {
            cx.violation("C02", "C02/I02/copied-block-serialises-invalid", e.what());
        }
    }
    cpy.reset();
    vec.clear();
    src.reset();
    cx.state_key = std::string("copied-hints/") + HOW[how] + ",";
    F.reset();
    F.log = nullptr;
}

// ---------------------------------------------------------------------------------------------------------------
// C09 at the structure level: FilePreamble / BlockParameters / StorageParameters / StorageHints / CollectionParameters are
// written with their own write() and read back with their own read() — into a fresh object and into an object that already
// holds OTHER values (a configuration object that is reused): whatever the object held before must not survive as a phantom member.
// (the structure is preceded by a byte string of `pad` bytes, so that its members meet the encoder's 2048-byte staging buffer at
//  every alignment; read_struct_pad() consumes it again)
static size_t g_pad = 0;
template <class Wr>
std::string serialise_struct(const char* tag, Wr wr) {
    simfs::FS& F = simfs::fs();
    std::string name = std::string("/sim/c09-") + tag;
    {
        CDNS::CdnsEncoder enc(name, CDNS::CborOutputCompression::NO_COMPRESSION);
        enc.write_bytestring(std::string(g_pad, 'p'));
        wr(enc);
    }
    std::string bytes = F.exists(name) ? F.get(name) : std::string();
    F.dir.erase(name);
    return bytes;
}

std::string canon_text(const ppl::PCanon& c) { return "S{" + ref::dump(c.storage) + "}" + (c.has_cp ? "C{" + ref::dump(c.cp) + "}" : "no-cp"); }
std::string canon_text(const CDNS::FilePreamble& f) {
    std::string s = "v" + std::to_string(f.m_major_format_version) + "." + std::to_string(f.m_minor_format_version) + (f.m_private_version ? "p" + std::to_string(*f.m_private_version) : "p-");
    for (auto& bp : f.m_block_parameters) s += "|" + canon_text(ppl::canon_params(bp));
    return s;
}

void run_preamble_objects(RunCtx& cx) {
    Rng r(mix_str(cx.seed, "preamble-objects"));
    simfs::FS& F = simfs::fs();
    F.reset();
    F.log = &cx.log;
    auto make_fp = [&](CDNS::FilePreamble& fp) {
        std::vector<CDNS::BlockParameters> v;
        size_t k = r.range(1, 4);
        for (size_t i = 0; i < k; i++) v.push_back(gen::block_parameters(r, r.chance(3, 4)));
        fp = CDNS::FilePreamble(v);
        if (r.coin()) fp.m_private_version = boost::none; else fp.m_private_version = (uint8_t)r.below(256);
        fp.m_major_format_version = (uint8_t)r.below(256);
        fp.m_minor_format_version = (uint8_t)r.below(256);
    };
    CDNS::FilePreamble A, B;
    make_fp(A);
    make_fp(B);
    cx.n_ops = 5;
    g_pad = (size_t)r.below(2100);
    static const char* SN[] = {"FilePreamble", "BlockParameters", "StorageParameters", "StorageHints", "CollectionParameters"};
    auto V = [&](unsigned k, const char* how, const std::string& want, const std::string& got) {
        cx.violation("C09", std::string("C09/I25/structure-read-back-differs/") + SN[k] + "/" + how, std::string(SN[k]) + "::read into " + how + ": got " + got.substr(0, 300) + " want " + want.substr(0, 300));
    };
    const CDNS::BlockParameters& a0 = A.m_block_parameters[r.below(A.m_block_parameters.size())];
    const CDNS::BlockParameters& b0 = B.m_block_parameters[r.below(B.m_block_parameters.size())];
    try {
        if (cx.kept(0)) {
            std::string bytes = serialise_struct("fp", [&](CDNS::CdnsEncoder& e) { A.write(e); });
            std::string want = canon_text(A);
            { std::istringstream is(bytes); CDNS::CdnsDecoder d(is); d.read_bytestring(); CDNS::FilePreamble f; f.read(d); if (canon_text(f) != want) V(0, "a-fresh-object", want, canon_text(f)); }
            { std::istringstream is(bytes); CDNS::CdnsDecoder d(is); d.read_bytestring(); CDNS::FilePreamble f = B; f.read(d); if (canon_text(f) != want) V(0, "a-used-object", want, canon_text(f)); }
        }
        if (cx.kept(1)) {
            CDNS::BlockParameters a = a0;
            std::string bytes = serialise_struct("bp", [&](CDNS::CdnsEncoder& e) { a.write(e); });
            std::string want = canon_text(ppl::canon_params(a0));
            { std::istringstream is(bytes); CDNS::CdnsDecoder d(is); d.read_bytestring(); CDNS::BlockParameters f; f.read(d); if (canon_text(ppl::canon_params(f)) != want) V(1, "a-fresh-object", want, canon_text(ppl::canon_params(f))); }
            { std::istringstream is(bytes); CDNS::CdnsDecoder d(is); d.read_bytestring(); CDNS::BlockParameters f = b0; f.read(d); if (canon_text(ppl::canon_params(f)) != want) V(1, "a-used-object", want, canon_text(ppl::canon_params(f))); }
        }
        if (cx.kept(2)) {
            CDNS::BlockParameters a = a0;
            a.collection_parameters = boost::none;
            std::string bytes = serialise_struct("sp", [&](CDNS::CdnsEncoder& e) { a.storage_parameters.write(e); });
            std::string want = canon_text(ppl::canon_params(a));
            { std::istringstream is(bytes); CDNS::CdnsDecoder d(is); d.read_bytestring(); CDNS::BlockParameters f; f.storage_parameters.read(d); if (canon_text(ppl::canon_params(f)) != want) V(2, "a-fresh-object", want, canon_text(ppl::canon_params(f))); }
            { std::istringstream is(bytes); CDNS::CdnsDecoder d(is); d.read_bytestring(); CDNS::BlockParameters f = b0; f.collection_parameters = boost::none; f.storage_parameters.read(d); if (canon_text(ppl::canon_params(f)) != want) V(2, "a-used-object", want, canon_text(ppl::canon_params(f))); }
        }
        if (cx.kept(3)) {
            CDNS::StorageHints h = a0.storage_parameters.storage_hints;
            std::string bytes = serialise_struct("sh", [&](CDNS::CdnsEncoder& e) { h.write(e); });
            auto txt = [](const CDNS::StorageHints& x) { return std::to_string(x.query_response_hints) + "/" + std::to_string(x.query_response_signature_hints) + "/" + std::to_string((unsigned)x.rr_hints) + "/" + std::to_string((unsigned)x.other_data_hints); };
            { std::istringstream is(bytes); CDNS::CdnsDecoder d(is); d.read_bytestring(); CDNS::StorageHints f; f.read(d); if (txt(f) != txt(h)) V(3, "a-fresh-object", txt(h), txt(f)); }
            { std::istringstream is(bytes); CDNS::CdnsDecoder d(is); d.read_bytestring(); CDNS::StorageHints f = b0.storage_parameters.storage_hints; f.read(d); if (txt(f) != txt(h)) V(3, "a-used-object", txt(h), txt(f)); }
        }
        if (cx.kept(4)) {
            CDNS::BlockParameters a = a0, b = b0;
            if (!a.collection_parameters) { CDNS::BlockParameters t = gen::block_parameters(r, true); a.collection_parameters = t.collection_parameters ? *t.collection_parameters : CDNS::CollectionParameters(); }
            if (!b.collection_parameters) { CDNS::CollectionParameters c; c.promisc = true; c.snaplen = 77; c.filter = std::string("decoy"); c.interfaces.push_back("decoy0"); c.vlan_ids.push_back(9); c.server_address.push_back(std::string(4, 'x')); b.collection_parameters = c; }
            std::string bytes = serialise_struct("cp", [&](CDNS::CdnsEncoder& e) { a.collection_parameters->write(e); });
            std::string want = canon_text(ppl::canon_params(a));
            { std::istringstream is(bytes); CDNS::CdnsDecoder d(is); d.read_bytestring(); CDNS::BlockParameters f = a; f.collection_parameters = CDNS::CollectionParameters(); f.collection_parameters->read(d); if (canon_text(ppl::canon_params(f)) != want) V(4, "a-fresh-object", want, canon_text(ppl::canon_params(f))); }
            { std::istringstream is(bytes); CDNS::CdnsDecoder d(is); d.read_bytestring(); CDNS::BlockParameters f = a; f.collection_parameters = *b.collection_parameters; f.collection_parameters->read(d); if (canon_text(ppl::canon_params(f)) != want) V(4, "a-used-object", want, canon_text(ppl::canon_params(f))); }
        }
        cx.ctr->add("preamble_structures_read_back", 10);
    } catch (std::exception& e) {
        cx.violation("C09", "C09/I25/structure-read-back-threw", std::string("reading back a preamble structure the library serialised threw: ") + e.what());
    }
    cx.log.ev("PREAMBLE-OBJECTS sets " + std::to_string(A.m_block_parameters.size()) + "/" + std::to_string(B.m_block_parameters.size()));
    if (cx.describe) cx.description = "FilePreamble A (" + std::to_string(A.m_block_parameters.size()) + " sets) and its parts written with write(), read back with read() into fresh objects and into objects holding preamble B (" + std::to_string(B.m_block_parameters.size()) + " sets)";
    cx.nontrivial = true;
    cx.state_key = "preamble-objects" + std::to_string(A.m_block_parameters.size()) + std::to_string(B.m_block_parameters.size()) + ",";
    F.reset();
    F.log = nullptr;
}

// ---------------------------------------------------------------------------------------------------------------
// C17 on blocks the application builds itself: QueryResponse / MalformedMessage / AddressEventCount structures are added
// through the non-generic overloads (they carry absolute times in `time_offset`; the block keeps its earliest time and
// turns them into offsets when it is written), in every arrival order of timed and untimed records; the block is written
// with write_block(block) and read by the independent reader and by the library's reader.
void run_direct_blocks(RunCtx& cx) {
    Rng r(mix_str(cx.seed, "direct-blocks"));
    gen::Swarm sw = gen::swarm(cx.seed, gen::P_TIME);
    sw.sets.resize(1);
    sw.sets[0].storage_parameters.max_block_items = (uint64_t)r.pick(std::vector<uint64_t>{1, 2, 3, 10000});
    sw.sets[0].storage_parameters.storage_hints.rr_hints = 3;   // (add_generic_rrlist consults them; C04 judges that elsewhere)
    std::vector<CDNS::BlockParameters> sets = sw.sets;
    const uint64_t tps = sets[0].storage_parameters.ticks_per_second;
    const uint64_t maxi = sets[0].storage_parameters.max_block_items;
    simfs::FS& F = simfs::fs();
    F.reset();
    F.log = &cx.log;
    unsigned n = (unsigned)r.range(1, 10);
    cx.n_ops = n;
    cx.tag("direct-block");
    CDNS::CdnsBlock blk(sets[0], 0);
    std::vector<ref::MRec> want_qr, want_mm;
    std::map<std::string, uint64_t> want_aec;
    bool have_time = false;
    CDNS::Timestamp earliest;
    // times cluster around a base so that later records are often earlier than the first one
    gen::RecGen g0(sw, r.next());
    CDNS::Timestamp base = g0.ts(tps);
    auto near_base = [&](Rng& q) {
        CDNS::Timestamp t = base;
        switch (q.below(5)) {
            case 0: break;
            case 1: if (t.m_ticks > 0) t.m_ticks -= 1 + q.below(t.m_ticks); else if (t.m_secs > 0) { t.m_secs--; t.m_ticks = tps - 1; } break;
            case 2: if (t.m_secs > 0) t.m_secs -= 1 + q.below(t.m_secs < 100 ? t.m_secs : 100); break;
            case 3: if (t.m_ticks + 1 < tps) t.m_ticks++; break;
            default: { gen::RecGen g(sw, q.next()); t = g.ts(tps); break; }
        }
        return t;
    };
    auto note_time = [&](const CDNS::Timestamp& t) {
        if (!have_time || t.m_secs < earliest.m_secs || (t.m_secs == earliest.m_secs && t.m_ticks < earliest.m_ticks)) earliest = t;
        have_time = true;
    };
    for (unsigned k = 0; k < n; k++) {
        Rng q(mix64(cx.seed, 700 + k));
        if (!cx.kept(k)) continue;
        bool timed = !q.chance(1, 3);
        CDNS::Timestamp t = near_base(q);
        bool full_before_model, aec_refused = false;
        bool ret;
        std::string what;
        switch (q.below(4)) {
            case 0: case 1: {
                CDNS::QueryResponse x;
                CDNS::GenericQueryResponse gq;
                if (timed) { x.time_offset = t; gq.ts = t; }
                x.client_port = (uint16_t)(1000 + k); gq.client_port = x.client_port;
                if (q.coin()) { x.transaction_id = (uint16_t)q.below(65536); gq.transaction_id = x.transaction_id; }
                ref::MRec want = model::to_mrec(gq);
                if (q.coin()) {
                    // section lists composed with the public helpers; an empty list (QDCOUNT = 0, NODATA) is a list like any other
                    std::vector<CDNS::GenericResourceRecord> ql, al;
                    unsigned nq = (unsigned)q.below(3), na = (unsigned)q.below(3);
                    for (unsigned z = 0; z < nq; z++) { CDNS::GenericResourceRecord g; g.name = "q" + std::to_string(q.below(3)); g.classtype.type = (uint16_t)q.below(3); g.classtype.class_ = 1; ql.push_back(g); }
                    for (unsigned z = 0; z < na; z++) {
                        CDNS::GenericResourceRecord g; g.name = "a" + std::to_string(q.below(3)); g.classtype.type = (uint16_t)q.below(3); g.classtype.class_ = 1;
                        if (q.coin()) g.ttl = (uint32_t)q.below(4);
                        if (q.coin()) g.rdata = "rd" + std::to_string(q.below(3));
                        al.push_back(g);
                    }
                    CDNS::QueryResponseExtended qe, re;
                    qe.question_index = blk.add_generic_qlist(ql);
                    re.answer_index = blk.add_generic_rrlist(al);
                    x.query_extended = qe;
                    x.response_extended = re;
                    want["query_questions"] = model::qlist_str(ql);
                    want["response_answers"] = model::rrlist_str(al);
                    cx.ctr->add(nq == 0 || na == 0 ? "probe.direct_block_with_empty_section_list" : "probe.direct_block_with_section_lists");
                }
                ret = blk.add_question_response_record(x);
                want_qr.push_back(want);
                if (timed) note_time(t);
                what = std::string("add QueryResponse ") + (timed ? model::ts_str(t) : "untimed");
                break;
            }
            case 2: {
                CDNS::MalformedMessage x;
                CDNS::GenericMalformedMessage gm;
                if (timed) { x.time_offset = t; gm.ts = t; }
                x.client_port = (uint16_t)(2000 + k); gm.client_port = x.client_port;
                ret = blk.add_malformed_message(x);
                want_mm.push_back(model::to_mrec(gm));
                if (timed) note_time(t);
                what = std::string("add MalformedMessage ") + (timed ? model::ts_str(t) : "untimed");
                break;
            }
            default: {
                CDNS::AddressEventCount x;
                CDNS::GenericAddressEventCount ga;
                std::string ip = q.coin() ? std::string("\x0a\x00\x00\x01", 4) : std::string("\x0a\x00\x00\x02", 4);
                x.ae_type = CDNS::AddressEventTypeValues::tcp_reset; ga.ae_type = x.ae_type;
                x.ae_address_index = blk.add_ip_address(ip); ga.ip_address = ip;
                ret = blk.add_address_event_count(x);
                // (this overload, unlike the other two, consults the block's hints: nothing is stored and false is returned when address events are excluded)
                aec_refused = !(sets[0].storage_parameters.storage_hints.other_data_hints & 2);
                if (!aec_refused) want_aec[ref::dump(model::to_mrec_key(ga))]++;
                what = "add AddressEventCount";
                break;
            }
        }
        full_before_model = !aec_refused && (want_qr.size() >= maxi || want_mm.size() >= maxi || want_aec.size() >= maxi);
        if (ret != full_before_model)
            cx.violation("C12", "C12/I08/direct-add-return-value", what + " returned " + (ret ? "true" : "false") + " (block full) with arrays " + std::to_string(want_qr.size()) + "/" + std::to_string(want_aec.size()) + "/" + std::to_string(want_mm.size()) + ", max_block_items " + std::to_string(maxi));
        cx.log.ev("DIRECT " + what);
        if (cx.describe) cx.description += what + "; ";
        // the block's earliest time is not later than any time stored so far (it need not be their minimum: a block whose first
        // record is untimed keeps the epoch, which still gives non-negative offsets)
        const CDNS::Timestamp& be = blk.m_block_preamble.earliest_time;
        if (have_time && (be.m_secs > earliest.m_secs || (be.m_secs == earliest.m_secs && be.m_ticks > earliest.m_ticks)))
            cx.violation("C17", "C17/I20/earliest-time-later-than-a-record/direct-block", "after '" + what + "' the block's earliest time is " + model::ts_str(be) + ", the earliest record time " + model::ts_str(earliest));
    }
    if (blk.get_item_count() > 0) {
        {
            CDNS::FilePreamble fp(sets);
            CDNS::CdnsExporter ex(fp, std::string("/sim/c17-direct"), CDNS::CborOutputCompression::NO_COMPRESSION);
            ex.write_block(blk);
        }
        std::string bytes = F.exists("/sim/c17-direct") ? F.get("/sim/c17-direct") : std::string();
        try {
            ref::RFile rf = ref::Interp::file(bytes);
            if (rf.blocks.size() != 1) cx.violation("C02", "C02/I02/direct-block-count", std::to_string(rf.blocks.size()) + " blocks");
            else {
                const ref::RBlock& b = rf.blocks[0];
                if (b.max_offset >> 63) cx.violation("C17", "C17/I20/offset-not-below-2^63/direct-block", "stored offset " + std::to_string(b.max_offset));
                bool same = b.qr.size() == want_qr.size() && b.mm.size() == want_mm.size();
                std::string d;
                for (size_t i = 0; same && i < b.qr.size(); i++) if (b.qr[i] != want_qr[i]) { same = false; d = "qr " + std::to_string(i) + ": " + ref::first_diff(want_qr[i], b.qr[i]); }
                for (size_t i = 0; same && i < b.mm.size(); i++) if (b.mm[i] != want_mm[i]) { same = false; d = "mm " + std::to_string(i) + ": " + ref::first_diff(want_mm[i], b.mm[i]); }
                if (!same) cx.violation("C17", "C17/I20/record-time-not-recovered/direct-block", "independent reader: " + (d.empty() ? std::string("record counts differ") : d));
                std::map<std::string, uint64_t> got;
                for (auto& a : b.aec) got[ref::dump(a.first)] += a.second;
                if (got != want_aec) cx.violation("C12", "C12/I10/direct-block-address-events", "address-event counts of a directly built block differ from the calls made");
            }
            model::VFile vf = model::view_bytes(bytes);
            if (!vf.ended_clean || vf.blocks.size() != 1) cx.violation("C01", "C01/I01/reader-rejects-own-output/direct-block", vf.error_type + ": " + vf.error);
            else {
                const model::VBlock& b = vf.blocks[0];
                for (auto& w : want_qr) for (auto it = w.begin(); it != w.end();) { if (it->second == "[]") it = w.erase(it); else ++it; }   // (the generic interface has no empty section lists)
                bool same = b.qr.size() == want_qr.size() && b.mm.size() == want_mm.size();
                std::string d;
                for (size_t i = 0; same && i < b.qr.size(); i++) if (b.qr[i] != want_qr[i]) { same = false; d = "qr " + std::to_string(i) + ": " + ref::first_diff(want_qr[i], b.qr[i]); }
                for (size_t i = 0; same && i < b.mm.size(); i++) if (b.mm[i] != want_mm[i]) { same = false; d = "mm " + std::to_string(i) + ": " + ref::first_diff(want_mm[i], b.mm[i]); }
                if (!same) cx.violation("C17", "C17/I20/record-time-not-recovered(reader)/direct-block", "library reader: " + (d.empty() ? std::string("record counts differ") : d));
                else cx.ctr->add("direct_blocks_read_back");
            }
        } catch (std::exception& e) {
            cx.violation("C02", "C02/I02/direct-block-invalid", e.what());
        }
        cx.nontrivial = true;
    }
    cx.state_key = "direct" + std::to_string(want_qr.size() > 2 ? 2 : want_qr.size()) + std::to_string(want_mm.size() > 2 ? 2 : want_mm.size()) + (have_time ? "t" : "u") + ",";
    F.reset();
    F.log = nullptr;
}

// C04, second mode: an application-managed block under a parameter set with a non-zero index is filled, written with
// write_block(block), cleared and filled again (several rounds). Every block in the file states that set, and nothing its hints
// exclude is in it.
void run_reused_block_hints(RunCtx& cx) {
    Rng r(mix_str(cx.seed, "reused-block"));
    gen::Swarm sw = gen::swarm(cx.seed, gen::P_HINTS);
    while (sw.sets.size() < 2) sw.sets.push_back(gen::block_parameters(r, false));
    for (auto& bp : sw.sets) bp.storage_parameters.max_block_items = 10000;
    std::vector<CDNS::BlockParameters> sets = sw.sets;
    unsigned idx = 1 + (unsigned)r.below(sets.size() - 1);
    // make sure set 0 and the set in use differ in what they exclude
    sets[0].storage_parameters.storage_hints.query_response_hints = ~sets[idx].storage_parameters.storage_hints.query_response_hints & 0x3ffff;
    sets[0].storage_parameters.storage_hints.other_data_hints = (uint8_t)(~sets[idx].storage_parameters.storage_hints.other_data_hints & 3);
    simfs::FS& F = simfs::fs();
    F.reset();
    F.log = &cx.log;
    uint64_t tps = sets[idx].storage_parameters.ticks_per_second;
    unsigned rounds = (unsigned)r.range(2, 4);
    cx.n_ops = rounds;
    cx.tag("reused-block");
    unsigned written = 0;
    {
        CDNS::FilePreamble fp(sets);
        CDNS::CdnsExporter ex(fp, std::string("/sim/c04-reused"), CDNS::CborOutputCompression::NO_COMPRESSION);
        CDNS::CdnsBlock blk(sets[idx], idx);
        for (unsigned k = 0; k < rounds; k++) {
            if (!cx.kept(k)) continue;
            unsigned n = (unsigned)r.range(1, 5);
            for (unsigned i = 0; i < n; i++) {
                gen::RecGen g(sw, r.next());
                switch (r.below(4)) {
                    case 0: case 1: blk.add_question_response_record(g.qr(tps)); break;
                    case 2: blk.add_address_event_count(g.aec()); break;
                    default: blk.add_malformed_message(g.mm(tps)); break;
                }
            }
            if (blk.get_item_count() > 0) { ex.write_block(blk); written++; }
            blk.clear();
        }
    }
    cx.log.ev("REUSED-BLOCK set " + std::to_string(idx) + " of " + std::to_string(sets.size()) + " rounds " + std::to_string(rounds) + " written " + std::to_string(written));
    if (cx.describe) cx.description = "a block under parameter set " + std::to_string(idx) + " of " + std::to_string(sets.size()) + " is filled, written with write_block(block) and cleared, " + std::to_string(rounds) + " times";
    if (written) {
        std::string bytes = F.exists("/sim/c04-reused") ? F.get("/sim/c04-reused") : std::string();
        try {
            ref::RFile rf = ref::Interp::file(bytes);
            if (rf.blocks.size() != written) cx.violation("C12", "C12/I10/block-count/reused-block", std::to_string(rf.blocks.size()) + " blocks in the file, " + std::to_string(written) + " written");
            for (size_t bi = 0; bi < rf.blocks.size(); bi++) {
                const ref::RBlock& b = rf.blocks[bi];
                if (b.bp_index != idx) cx.violation("C04", "C04/I04/block-states-other-parameter-set/reused-block", "block " + std::to_string(bi) + " built under parameter set " + std::to_string(idx) + " refers to set " + std::to_string(b.bp_index));
                size_t si = b.bp_index < sets.size() ? b.bp_index : idx;
                model::Hints h = model::Hints::of(sets[si]);
                std::string bad;
                for (auto& mem : b.members) {
                    bool ok = true;
                    if (mem.compare(0, 3, "qr.") == 0 && mem != "qr.rq") ok = (h.qr >> std::stoi(mem.substr(3))) & 1;
                    else if (mem.compare(0, 4, "sig.") == 0) ok = ((h.sig >> std::stoi(mem.substr(4))) & 1) && ((h.qr >> 4) & 1);
                    else if (mem.compare(0, 3, "rr.") == 0) ok = (h.rr >> std::stoi(mem.substr(3))) & 1;
                    if (!ok && bad.empty()) bad = "member " + mem;
                }
                if (bad.empty() && b.has_aec_array && !(h.other & 2)) bad = "address events";
                if (bad.empty() && b.has_mm_array && !(h.other & 1)) bad = "malformed messages";
                if (!bad.empty()) cx.violation("C04", "C04/I04/excluded-by-the-set-the-block-states/reused-block", "block " + std::to_string(bi) + ": " + bad + " present although the set it refers to (" + std::to_string(si) + ") excludes it");
                for (auto& d : b.unreachable) cx.violation("C04", "C04/I05/unreachable-table-entry/reused-block", "block " + std::to_string(bi) + ": " + d);
            }
            cx.ctr->add("reused_blocks_checked", rf.blocks.size());
            cx.nontrivial = true;
        } catch (std::exception& e) {
            cx.violation("C02", "C02/I02/reused-block-file-invalid", e.what());
        }
    }
    cx.state_key = "reused" + std::to_string(rounds) + "s" + std::to_string(idx) + ",";
    F.reset();
    F.log = nullptr;
}

}  // namespace

void sim::engine_objects(RunCtx& cx) {
    if (cx.prop == "C17") { if (mix_str(cx.seed, "c17-mode") % 3 == 0) run_direct_blocks(cx); else run_timestamps(cx); }
    else if (cx.prop == "C11") run_tables(cx);
    else if (cx.prop == "C04") { if (mix_str(cx.seed, "c04-mode") % 3 == 0) run_reused_block_hints(cx); else run_copied_hints(cx); }
    else if (cx.prop == "C09") run_preamble_objects(cx);
    else if (cx.prop == "C12" || cx.prop == "C02") run_direct_blocks(cx);
    else run_copies(cx);
}
