// Thread scheduler seam (C20). Real threads, exactly one of them runnable at any time; the run token is handed over with
// raw futex calls from a translation unit that is compiled WITHOUT ThreadSanitizer, so TSan's happens-before analysis does
// not see the hand-off and keeps treating the workers as unsynchronised. Pre-emption points are the basic-block callbacks
// of -fsanitize-coverage=trace-pc-guard in the library objects; after a seeded number of blocks the running thread yields
// and the seeded PRNG picks who runs next.
#pragma once
#include <cstdint>
namespace sched {
void begin(uint64_t seed, unsigned nthreads, unsigned max_quantum);   // main thread, before creating the workers
void thread_enter(unsigned id);     // first call of worker `id`: parks until it is scheduled
void thread_exit(unsigned id);      // last call of worker `id`: hands the token on
void start_and_wait();              // main thread: waits until all workers are parked, hands out the token, waits for all to finish
void yield_point();                 // explicit pre-emption point
void syscall_point();               // a simulated system call is being entered: the scheduler pre-empts here with probability 1/2
                                    // (system calls are the pre-emption points inside otherwise straight-line code, e.g. between
                                    // two calls that save and restore process-wide state); no-op outside scheduled threads
uint64_t switch_hash();             // FNV of the sequence of scheduling decisions
uint64_t switches();
uint64_t blocks();                  // basic blocks executed under the scheduler
}
