// Reference models: canonical record form, the hint filter, the exporter state machine of
// DESIGN.md Appendix A, and the "reader view" of a file (real CdnsReader -> canonical records).
#pragma once
#include "common.h"
#include "refcdns.h"
#include "cdns.h"

namespace model {
using ref::MRec;

// ---- canonical forms of the library's generic records -----------------------------------------
inline std::string ts_str(const CDNS::Timestamp& t) { return std::to_string(t.m_secs) + "." + std::to_string(t.m_ticks); }
inline std::string ct_str(const CDNS::ClassType& c) { return std::to_string(c.type) + ":" + std::to_string(c.class_); }
inline std::string qlist_str(const std::vector<CDNS::GenericResourceRecord>& v) {
    std::string s = "[";
    for (auto& g : v) s += sim::hex(g.name) + ":" + ct_str(g.classtype) + ",";
    return s + "]";
}
inline std::string rrlist_str(const std::vector<CDNS::GenericResourceRecord>& v) {
    std::string s = "[";
    for (auto& g : v)
        s += sim::hex(g.name) + ":" + ct_str(g.classtype) + ":" + (g.ttl ? std::to_string(*g.ttl) : std::string("-")) + ":" +
             (g.rdata ? sim::hex(*g.rdata) : std::string("-")) + ",";
    return s + "]";
}

// empty section list == absent (C01 precondition)
inline MRec to_mrec(const CDNS::GenericQueryResponse& g) {
    MRec r;
    if (g.ts) r["ts"] = ts_str(*g.ts);
    if (g.client_ip) r["client_ip"] = sim::hex(*g.client_ip);
    if (g.client_port) r["client_port"] = std::to_string(*g.client_port);
    if (g.transaction_id) r["transaction_id"] = std::to_string(*g.transaction_id);
    if (g.server_ip) r["server_ip"] = sim::hex(*g.server_ip);
    if (g.server_port) r["server_port"] = std::to_string(*g.server_port);
    if (g.qr_transport_flags) r["qr_transport_flags"] = std::to_string((unsigned)*g.qr_transport_flags);
    if (g.qr_type) r["qr_type"] = std::to_string((unsigned)*g.qr_type);
    if (g.qr_sig_flags) r["qr_sig_flags"] = std::to_string((unsigned)*g.qr_sig_flags);
    if (g.query_opcode) r["query_opcode"] = std::to_string((unsigned)*g.query_opcode);
    if (g.qr_dns_flags) r["qr_dns_flags"] = std::to_string((unsigned)*g.qr_dns_flags);
    if (g.query_rcode) r["query_rcode"] = std::to_string(*g.query_rcode);
    if (g.query_classtype) r["query_classtype"] = ct_str(*g.query_classtype);
    if (g.query_qdcount) r["query_qdcount"] = std::to_string(*g.query_qdcount);
    if (g.query_ancount) r["query_ancount"] = std::to_string(*g.query_ancount);
    if (g.query_nscount) r["query_nscount"] = std::to_string(*g.query_nscount);
    if (g.query_arcount) r["query_arcount"] = std::to_string(*g.query_arcount);
    if (g.query_edns_version) r["query_edns_version"] = std::to_string((unsigned)*g.query_edns_version);
    if (g.query_udp_size) r["query_udp_size"] = std::to_string(*g.query_udp_size);
    if (g.query_opt_rdata) r["query_opt_rdata"] = sim::hex(*g.query_opt_rdata);
    if (g.response_rcode) r["response_rcode"] = std::to_string(*g.response_rcode);
    if (g.client_hoplimit) r["client_hoplimit"] = std::to_string((unsigned)*g.client_hoplimit);
    if (g.response_delay) r["response_delay"] = std::to_string((long long)*g.response_delay);
    if (g.query_name) r["query_name"] = sim::hex(*g.query_name);
    if (g.query_size) r["query_size"] = std::to_string((unsigned long long)*g.query_size);
    if (g.response_size) r["response_size"] = std::to_string((unsigned long long)*g.response_size);
    if (g.bailiwick) r["bailiwick"] = sim::hex(*g.bailiwick);
    if (g.processing_flags) r["processing_flags"] = std::to_string((unsigned)*g.processing_flags);
    if (g.query_questions && !g.query_questions->empty()) r["query_questions"] = qlist_str(*g.query_questions);
    if (g.query_answers && !g.query_answers->empty()) r["query_answers"] = rrlist_str(*g.query_answers);
    if (g.query_authority && !g.query_authority->empty()) r["query_authority"] = rrlist_str(*g.query_authority);
    if (g.query_additional && !g.query_additional->empty()) r["query_additional"] = rrlist_str(*g.query_additional);
    if (g.response_questions && !g.response_questions->empty()) r["response_questions"] = qlist_str(*g.response_questions);
    if (g.response_answers && !g.response_answers->empty()) r["response_answers"] = rrlist_str(*g.response_answers);
    if (g.response_authority && !g.response_authority->empty()) r["response_authority"] = rrlist_str(*g.response_authority);
    if (g.response_additional && !g.response_additional->empty()) r["response_additional"] = rrlist_str(*g.response_additional);
    if (g.asn) r["asn"] = sim::hex(*g.asn);
    if (g.country_code) r["country_code"] = sim::hex(*g.country_code);
    if (g.round_trip_time) r["round_trip_time"] = std::to_string((long long)*g.round_trip_time);
    return r;
}
inline MRec to_mrec_key(const CDNS::GenericAddressEventCount& a) {
    MRec r;
    r["ae_type"] = std::to_string((unsigned)a.ae_type);
    if (a.ae_code) r["ae_code"] = std::to_string((unsigned)*a.ae_code);
    if (a.ae_transport_flags) r["ae_transport_flags"] = std::to_string((unsigned)*a.ae_transport_flags);
    r["ip"] = sim::hex(a.ip_address);
    return r;
}
inline MRec to_mrec(const CDNS::GenericMalformedMessage& m) {
    MRec r;
    if (m.ts) r["ts"] = ts_str(*m.ts);
    if (m.client_ip) r["client_ip"] = sim::hex(*m.client_ip);
    if (m.client_port) r["client_port"] = std::to_string(*m.client_port);
    if (m.server_ip) r["server_ip"] = sim::hex(*m.server_ip);
    if (m.server_port) r["server_port"] = std::to_string(*m.server_port);
    if (m.mm_transport_flags) r["mm_transport_flags"] = std::to_string((unsigned)*m.mm_transport_flags);
    if (m.mm_payload) r["mm_payload"] = sim::hex(*m.mm_payload);
    return r;
}
inline MRec to_mrec(const CDNS::BlockStatistics& b) {
    MRec r;
    if (b.processed_messages) r["processed_messages"] = std::to_string(*b.processed_messages);
    if (b.qr_data_items) r["qr_data_items"] = std::to_string(*b.qr_data_items);
    if (b.unmatched_queries) r["unmatched_queries"] = std::to_string(*b.unmatched_queries);
    if (b.unmatched_responses) r["unmatched_responses"] = std::to_string(*b.unmatched_responses);
    if (b.discarded_opcode) r["discarded_opcode"] = std::to_string(*b.discarded_opcode);
    if (b.malformed_items) r["malformed_items"] = std::to_string(*b.malformed_items);
    return r;
}

// ---- the hint filter (DESIGN.md Appendix A), written from RFC 8618 §7.3.1.1.1 bit assignments ----
struct Hints {
    uint32_t qr = 0x3ffff, sig = 0x1ffff;
    uint8_t rr = 3, other = 3;
    static Hints of(const CDNS::BlockParameters& bp) {
        Hints h;
        h.qr = bp.storage_parameters.storage_hints.query_response_hints;
        h.sig = bp.storage_parameters.storage_hints.query_response_signature_hints;
        h.rr = bp.storage_parameters.storage_hints.rr_hints;
        h.other = bp.storage_parameters.storage_hints.other_data_hints;
        return h;
    }
};

inline std::vector<CDNS::GenericResourceRecord> filter_rrs(const std::vector<CDNS::GenericResourceRecord>& v, const Hints& h) {
    std::vector<CDNS::GenericResourceRecord> o = v;
    for (auto& g : o) {
        if (!(h.rr & 1)) g.ttl = boost::none;
        if (!(h.rr & 2)) g.rdata = boost::none;
    }
    return o;
}
inline std::vector<CDNS::GenericResourceRecord> strip_q(const std::vector<CDNS::GenericResourceRecord>& v) {
    std::vector<CDNS::GenericResourceRecord> o = v;
    for (auto& g : o) { g.ttl = boost::none; g.rdata = boost::none; }
    return o;
}

// What of `g` is expected in the file under hints `h`. rq_follows_bit11: the response-side question
// list has no hint bit of its own in RFC 8618; the caller tells which reading to use (the oracle tries
// both where it matters and constrains nothing on that one member).
inline MRec expect_qr(const CDNS::GenericQueryResponse& g0, const Hints& h, bool response_questions_kept) {
    CDNS::GenericQueryResponse g = g0;
    auto off = [&](unsigned bit) { return !(h.qr & (1U << bit)); };
    auto soff = [&](unsigned bit) { return off(4) || !(h.sig & (1U << bit)); };
    if (off(0)) g.ts = boost::none;
    if (off(1)) g.client_ip = boost::none;
    if (off(2)) g.client_port = boost::none;
    if (off(3)) g.transaction_id = boost::none;
    if (soff(0)) g.server_ip = boost::none;
    if (soff(1)) g.server_port = boost::none;
    if (soff(2)) g.qr_transport_flags = boost::none;
    if (soff(3)) g.qr_type = boost::none;
    if (soff(4)) g.qr_sig_flags = boost::none;
    if (soff(5)) g.query_opcode = boost::none;
    if (soff(6)) g.qr_dns_flags = boost::none;
    if (soff(7)) g.query_rcode = boost::none;
    if (soff(8)) g.query_classtype = boost::none;
    if (soff(9)) g.query_qdcount = boost::none;
    if (soff(10)) g.query_ancount = boost::none;
    if (soff(11)) g.query_nscount = boost::none;
    if (soff(12)) g.query_arcount = boost::none;
    if (soff(13)) g.query_edns_version = boost::none;
    if (soff(14)) g.query_udp_size = boost::none;
    if (soff(15)) g.query_opt_rdata = boost::none;
    if (soff(16)) g.response_rcode = boost::none;
    if (off(5)) g.client_hoplimit = boost::none;
    if (off(6)) g.response_delay = boost::none;
    if (off(7)) g.query_name = boost::none;
    if (off(8)) g.query_size = boost::none;
    if (off(9)) g.response_size = boost::none;
    if (off(10)) { g.bailiwick = boost::none; g.processing_flags = boost::none; }
    if (off(11)) g.query_questions = boost::none; else if (g.query_questions) g.query_questions = strip_q(*g.query_questions);
    if (off(12)) g.query_answers = boost::none; else if (g.query_answers) g.query_answers = filter_rrs(*g.query_answers, h);
    if (off(13)) g.query_authority = boost::none; else if (g.query_authority) g.query_authority = filter_rrs(*g.query_authority, h);
    if (off(14)) g.query_additional = boost::none; else if (g.query_additional) g.query_additional = filter_rrs(*g.query_additional, h);
    if (!response_questions_kept) g.response_questions = boost::none; else if (g.response_questions) g.response_questions = strip_q(*g.response_questions);
    if (off(15)) g.response_answers = boost::none; else if (g.response_answers) g.response_answers = filter_rrs(*g.response_answers, h);
    if (off(16)) g.response_authority = boost::none; else if (g.response_authority) g.response_authority = filter_rrs(*g.response_authority, h);
    if (off(17)) g.response_additional = boost::none; else if (g.response_additional) g.response_additional = filter_rrs(*g.response_additional, h);
    return to_mrec(g);
}

// ---- exporter model ----------------------------------------------------------------------------
struct MBlock {
    unsigned set = 0;                   // index of the parameter set the block was filled under
    std::vector<MRec> qr;               // expected, response_questions as per bit 11 (the library's choice)
    std::vector<MRec> qr_alt;           // same with response_questions always kept (other legal reading)
    std::vector<bool> qr_has_rq;        // the source record carried a non-empty response question list
    std::map<std::string, uint64_t> aec;  // dump(key) -> count
    std::vector<MRec> mm;
    bool has_stats = false;
    MRec stats;
    bool opaque = false;                // directly built block: content not modelled
    size_t opaque_qr = 0, opaque_aec = 0, opaque_mm = 0;
    size_t items() const { return qr.size() + aec.size() + mm.size(); }
    void clear() { qr.clear(); qr_alt.clear(); qr_has_rq.clear(); aec.clear(); mm.clear(); has_stats = false; stats.clear(); }
};

struct MOutput {
    unsigned id = 0;
    std::string name;                   // final path in SimFS (with compression suffix) or "fd:<name>"
    std::vector<MBlock> blocks;
    uint64_t ret_sum = 0;
    bool closed_by_destruction = false;
    size_t nsets_at_open = 0;           // parameter sets the preamble of this output can contain
    std::vector<std::string> record_log;  // dump of every record written to this output, in order (qr+mm)
};

struct Exporter {
    std::vector<CDNS::BlockParameters> params;
    unsigned active = 0;
    MBlock cur;
    MOutput out;
    std::vector<MOutput> closed;
    uint64_t blocks_written = 0;

    uint64_t maxi() const { return params[cur.set].storage_parameters.max_block_items; }
    bool full() const {
        uint64_t M = maxi() ? maxi() : 1;   // "a maximum of 0 acting like 1"
        return cur.qr.size() >= M || cur.aec.size() >= M || cur.mm.size() >= M;
    }
    // returns true iff a block is written by this call (=> returned byte count must be non-zero)
    bool write_block() {
        bool wrote = cur.items() > 0;
        if (wrote) { out.blocks.push_back(cur); blocks_written++; }
        cur.clear();
        cur.set = active;
        return wrote;
    }
    // With max_block_items == 0 the library calls write_block() after every buffer call, also on an empty block
    // (which writes nothing but re-arms the active parameters); indistinguishable through the API, so mirrored here.
    bool maybe_flush() { return (maxi() == 0 || full()) ? write_block() : false; }

    // Two-phase form: add_* puts the record into the pending block (returns false if the hints exclude the
    // whole record class), maybe_flush() then writes the block if it is full. A faulted run may stop in between.
    bool add_qr(const CDNS::GenericQueryResponse& g, const CDNS::BlockStatistics* st) {
        Hints h = Hints::of(params[cur.set]);
        MRec e = expect_qr(g, h, (h.qr >> 11) & 1);
        // selftest canary: the reference model loses every 5th storable record
        static const bool canary = getenv("VERIF_CANARY") && !strcmp(getenv("VERIF_CANARY"), "model-drops-record");
        static unsigned canary_n = 0;
        if (canary && !e.empty() && ++canary_n % 5 == 0) return true;
        if (!e.empty()) {
            cur.qr.push_back(e);
            cur.qr_alt.push_back(expect_qr(g, h, true));
            cur.qr_has_rq.push_back(g.response_questions && !g.response_questions->empty());
        }
        if (st) { cur.has_stats = true; cur.stats = to_mrec(*st); }
        return true;
    }
    bool add_aec(const CDNS::GenericAddressEventCount& a, const CDNS::BlockStatistics* st) {
        Hints h = Hints::of(params[cur.set]);
        if (!(h.other & 2)) return false;
        cur.aec[ref::dump(to_mrec_key(a))]++;
        if (st) { cur.has_stats = true; cur.stats = to_mrec(*st); }
        return true;
    }
    bool add_mm(const CDNS::GenericMalformedMessage& m, const CDNS::BlockStatistics* st) {
        Hints h = Hints::of(params[cur.set]);
        if (!(h.other & 1)) return false;
        MRec e = to_mrec(m);
        if (!e.empty()) cur.mm.push_back(e);
        if (st) { cur.has_stats = true; cur.stats = to_mrec(*st); }
        return true;
    }
};

// ---- reader view: real CdnsReader + read_generic_* on a byte image ------------------------------
struct VBlock {
    std::vector<MRec> qr, mm;
    std::map<std::string, uint64_t> aec;
    bool has_stats = false;
    MRec stats;
    unsigned bp_index = 0;
    size_t n_qr = 0, n_aec = 0, n_mm = 0;
    uint64_t params_fp = 0;             // fingerprint of the parameter set the reader attached to the block (params_fp())
};
struct VFile {
    std::vector<VBlock> blocks;
    bool opened = false;                // the reader's constructor (file header + preamble) succeeded
    bool has_pre_after = false;
    CDNS::FilePreamble pre_after;       // the reader's preamble after the last read_block() call
    bool ended_clean = false;           // reader reported eof=true
    std::string error;                  // what() of the exception that ended reading, if any
    std::string error_type;
};

// cheap fingerprint of a parameter set (every member, absent/present distinguished; an empty list counts as absent)
inline uint64_t params_fp(const CDNS::BlockParameters& bp) {
    uint64_t h = 1469598103934665603ULL;
    auto mixn = [&](uint64_t v) { for (int i = 0; i < 8; i++) { h = (h ^ ((v >> (8 * i)) & 0xff)) * 1099511628211ULL; } };
    auto mixs = [&](const std::string& x) { mixn(x.size()); for (unsigned char c : x) h = (h ^ c) * 1099511628211ULL; };
    auto& sp = bp.storage_parameters;
    mixn(sp.ticks_per_second); mixn(sp.max_block_items);
    mixn(sp.storage_hints.query_response_hints); mixn(sp.storage_hints.query_response_signature_hints); mixn(sp.storage_hints.rr_hints); mixn(sp.storage_hints.other_data_hints);
    mixn(sp.opcodes.size()); for (auto o : sp.opcodes) mixn((uint64_t)o);
    mixn(sp.rr_types.size()); for (auto o : sp.rr_types) mixn((uint64_t)o);
    auto opt = [&](bool has, uint64_t v) { mixn(has ? 1 : 0); if (has) mixn(v); };
    opt(!!sp.storage_flags, sp.storage_flags ? (uint64_t)*sp.storage_flags : 0);
    opt(!!sp.client_address_prefix_ipv4, sp.client_address_prefix_ipv4 ? *sp.client_address_prefix_ipv4 : 0);
    opt(!!sp.client_address_prefix_ipv6, sp.client_address_prefix_ipv6 ? *sp.client_address_prefix_ipv6 : 0);
    opt(!!sp.server_address_prefix_ipv4, sp.server_address_prefix_ipv4 ? *sp.server_address_prefix_ipv4 : 0);
    opt(!!sp.server_address_prefix_ipv6, sp.server_address_prefix_ipv6 ? *sp.server_address_prefix_ipv6 : 0);
    mixn(!!sp.sampling_method); if (sp.sampling_method) mixs(*sp.sampling_method);
    mixn(!!sp.anonymization_method); if (sp.anonymization_method) mixs(*sp.anonymization_method);
    mixn(!!bp.collection_parameters);
    if (bp.collection_parameters) {
        auto& c = *bp.collection_parameters;
        opt(!!c.query_timeout, c.query_timeout ? *c.query_timeout : 0);
        opt(!!c.skew_timeout, c.skew_timeout ? *c.skew_timeout : 0);
        opt(!!c.snaplen, c.snaplen ? *c.snaplen : 0);
        opt(!!c.promisc, c.promisc ? *c.promisc : 0);
        mixn(c.interfaces.size()); for (auto& x : c.interfaces) mixs(x);
        mixn(c.server_address.size()); for (auto& x : c.server_address) mixs(x);
        mixn(c.vlan_ids.size()); for (auto x : c.vlan_ids) mixn(x);
        mixn(!!c.filter); if (c.filter) mixs(*c.filter);
        mixn(!!c.generator_id); if (c.generator_id) mixs(*c.generator_id);
        mixn(!!c.host_id); if (c.host_id) mixs(*c.host_id);
    }
    return h;
}

// CdnsBlock::m_block_parameters is protected: read it through a pointer to member formed in a derived class
struct BlockParamsPeek : CDNS::CdnsBlock {
    static const CDNS::BlockParameters& of(const CDNS::CdnsBlock& b) { return b.*(&BlockParamsPeek::m_block_parameters); }
};

inline VBlock view_block(CDNS::CdnsBlockRead& b) {
    VBlock v;
    v.bp_index = b.get_block_parameters_index();
    v.params_fp = params_fp(BlockParamsPeek::of(b));
    v.n_qr = b.get_qr_count();
    v.n_aec = b.get_aec_count();
    v.n_mm = b.get_mm_count();
    if (b.m_block_statistics) { v.has_stats = true; v.stats = to_mrec(*b.m_block_statistics); }
    bool end = false;
    for (;;) {
        CDNS::GenericQueryResponse g = b.read_generic_qr(end);
        if (end) break;
        v.qr.push_back(to_mrec(g));
    }
    for (;;) {
        CDNS::GenericAddressEventCount a = b.read_generic_aec(end);
        if (end) break;
        v.aec[ref::dump(to_mrec_key(a))] += a.ae_count;
    }
    for (;;) {
        CDNS::GenericMalformedMessage m = b.read_generic_mm(end);
        if (end) break;
        v.mm.push_back(to_mrec(m));
    }
    return v;
}

inline VFile view_stream(std::istream& is, CDNS::FilePreamble* pre_out = nullptr) {
    VFile f;
    try {
        CDNS::CdnsReader rd(is);
        f.opened = true;
        if (pre_out) *pre_out = rd.m_file_preamble;
        for (;;) {
            bool eof = false;
            CDNS::CdnsBlockRead b = rd.read_block(eof);
            if (eof) { f.ended_clean = true; break; }
            f.blocks.push_back(view_block(b));
        }
        f.pre_after = rd.m_file_preamble;
        f.has_pre_after = true;
    } catch (CDNS::CdnsDecoderEnd& e) { f.error = e.what(); f.error_type = "CdnsDecoderEnd"; }
    catch (CDNS::CdnsDecoderException& e) { f.error = e.what(); f.error_type = "CdnsDecoderException"; }
    catch (std::exception& e) { f.error = e.what(); f.error_type = "std::exception"; }
    return f;
}
inline VFile view_bytes(const std::string& bytes, CDNS::FilePreamble* pre_out = nullptr) {
    std::istringstream is(bytes);
    return view_stream(is, pre_out);
}

// ---- decompression oracle ----------------------------------------------------------------------
// returns false (and sets err) unless `in` is exactly one complete stream of the format
bool gunzip_exact(const std::string& in, std::string& out, std::string& err);
bool unxz_exact(const std::string& in, std::string& out, std::string& err);

}  // namespace model
