// See sched.h. This file must not be instrumented by any sanitizer (bin/build.py strips -fsanitize=thread for it).
#include "simsched.h"
#include <linux/futex.h>
#include <sys/syscall.h>
#include <unistd.h>
#include <sched.h>

namespace {
const unsigned MAXT = 32;
int g_go[MAXT];
int g_alive[MAXT];
int g_entered;
int g_done;
unsigned g_n;
bool g_active;
uint64_t g_rng, g_hash, g_switches, g_blocks;
unsigned g_maxq;
__thread int tl_id = -1;
__thread unsigned tl_quantum = 0;

uint64_t rnd() {
    uint64_t z = (g_rng += 0x9E3779B97F4A7C15ULL);
    z = (z ^ (z >> 30)) * 0xBF58476D1CE4E5B9ULL;
    z = (z ^ (z >> 27)) * 0x94D049BB133111EBULL;
    return z ^ (z >> 31);
}
void fwait(int* addr, int val) { syscall(SYS_futex, addr, FUTEX_WAIT, val, nullptr, nullptr, 0); }
void fwake(int* addr) { syscall(SYS_futex, addr, FUTEX_WAKE, 1 << 30, nullptr, nullptr, 0); }
void wait_turn(int id) {
    while (__atomic_load_n(&g_go[id], __ATOMIC_ACQUIRE) == 0) fwait(&g_go[id], 0);
    __atomic_store_n(&g_go[id], 0, __ATOMIC_RELAXED);
}
void pass_to(int id) {
    __atomic_store_n(&g_go[id], 1, __ATOMIC_RELEASE);
    fwake(&g_go[id]);
}
int pick() {
    unsigned alive = 0;
    for (unsigned i = 0; i < g_n; i++) alive += g_alive[i];
    if (!alive) return -1;
    unsigned k = (unsigned)(rnd() % alive);
    for (unsigned i = 0; i < g_n; i++) if (g_alive[i] && k-- == 0) return (int)i;
    return -1;
}
void note(int next) {
    g_hash = (g_hash ^ (uint64_t)(next + 1)) * 1099511628211ULL;
    g_hash = (g_hash ^ g_blocks) * 1099511628211ULL;
}
}  // namespace

namespace sched {
void begin(uint64_t seed, unsigned n, unsigned max_quantum) {
    g_n = n < MAXT ? n : MAXT;
    for (unsigned i = 0; i < MAXT; i++) { g_go[i] = 0; g_alive[i] = i < g_n; }
    g_entered = 0; g_done = 0; g_rng = seed; g_hash = 1469598103934665603ULL; g_switches = 0; g_blocks = 0;
    g_maxq = max_quantum ? max_quantum : 1;
    __atomic_store_n(&g_active, true, __ATOMIC_RELEASE);
}
void thread_enter(unsigned id) {
    tl_id = (int)id;
    tl_quantum = 1 + (unsigned)(id * 7 % g_maxq);
    __atomic_add_fetch(&g_entered, 1, __ATOMIC_ACQ_REL);
    fwake(&g_entered);
    wait_turn((int)id);
    tl_quantum = 1 + (unsigned)(rnd() % g_maxq);
}
void yield_point() {
    if (tl_id < 0 || !g_active) return;
    int next = pick();
    note(next);
    tl_quantum = 1 + (unsigned)(rnd() % g_maxq);
    if (next == tl_id || next < 0) return;
    g_switches++;
    pass_to(next);
    wait_turn(tl_id);
}
void syscall_point() {
    if (tl_id < 0 || !g_active) return;
    g_blocks++;
    if (rnd() & 1) yield_point();
}
void thread_exit(unsigned id) {
    g_alive[id] = 0;
    tl_id = -1;
    int next = pick();
    note(next);
    if (next >= 0) { g_switches++; pass_to(next); }
    else { __atomic_store_n(&g_done, 1, __ATOMIC_RELEASE); fwake(&g_done); }
}
void start_and_wait() {
    for (;;) {
        int e = __atomic_load_n(&g_entered, __ATOMIC_ACQUIRE);
        if ((unsigned)e >= g_n) break;
        fwait(&g_entered, e);
    }
    int first = pick();
    note(first);
    if (first >= 0) pass_to(first);
    else g_done = 1;
    while (__atomic_load_n(&g_done, __ATOMIC_ACQUIRE) == 0) fwait(&g_done, 0);
    __atomic_store_n(&g_active, false, __ATOMIC_RELEASE);
}
uint64_t switch_hash() { return g_hash; }
uint64_t switches() { return g_switches; }
uint64_t blocks() { return g_blocks; }
}  // namespace sched

extern "C" {
void __sanitizer_cov_trace_pc_guard_init(uint32_t* start, uint32_t* stop) {
    for (uint32_t* p = start; p < stop; p++) *p = 1;
}
void __sanitizer_cov_trace_pc_guard(uint32_t*) {
    if (tl_id < 0) return;
    g_blocks++;
    if (--tl_quantum == 0) sched::yield_point();
}
}
