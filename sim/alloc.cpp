#include "alloc.h"
#include <cstdlib>
#include <cstring>
#include <new>

namespace simalloc {
static State g;   // plain data, no constructor: usable from the very first allocation
State& state() { return g; }
void reset() { g = State(); }
}  // namespace simalloc

#ifndef SIM_NO_ALLOC_SEAM   // (the ThreadSanitizer runtime brings its own operator new; the allocator seam is not used in that flavour)
static inline void* sim_alloc(std::size_t n) {
    simalloc::State& g = simalloc::state();
    if (g.tracking) {
        g.count++;
        if (n > g.max_single) g.max_single = n;
        if (n >= (std::size_t)1 << 30) {
            g.refused++;
            if (n > g.refused_size) g.refused_size = n;
            throw std::bad_alloc();
        }
        if (g.fail_at && g.count == g.fail_at) {
            g.failed++;
            throw std::bad_alloc();
        }
    }
    void* p = std::malloc(n ? n : 1);
    if (!p) throw std::bad_alloc();
    if (g.fill) std::memset(p, g.fill_byte, n);
    return p;
}

void* operator new(std::size_t n) { return sim_alloc(n); }
void* operator new[](std::size_t n) { return sim_alloc(n); }
void operator delete(void* p) noexcept { std::free(p); }
void operator delete[](void* p) noexcept { std::free(p); }
void operator delete(void* p, std::size_t) noexcept { std::free(p); }
void operator delete[](void* p, std::size_t) noexcept { std::free(p); }
#endif
