// Allocator seam: global operator new/delete are replaced by the harness (alloc.cpp). It records the largest single
// request of the current run, refuses (std::bad_alloc) and records any single request of 1 GiB or more, and can make the
// k-th allocation fail.
#pragma once
#include <cstddef>
#include <cstdint>
namespace simalloc {
struct State {
    uint64_t count = 0;            // allocations since reset
    size_t max_single = 0;         // largest single request since reset
    size_t refused = 0;            // requests >= 1 GiB (refused)
    size_t refused_size = 0;       // size of the largest refused request
    uint64_t fail_at = 0;          // make the k-th allocation (1-based, since reset) throw std::bad_alloc; 0 = never
    uint64_t failed = 0;           // how often that happened
    bool tracking = false;
    bool fill = false;             // fresh memory is filled with fill_byte (makes reads of uninitialised heap memory deterministic and variable)
    unsigned char fill_byte = 0;
};
State& state();
void reset();
}  // namespace simalloc
